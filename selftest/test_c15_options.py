"""Self-test of mcphot.ref.c15_options (the C15 options family) and of the NDData forms of mcphot.ref.registry: every
representation / form must hold exactly the numbers of the plain float64 call; the enumerations have the stated sizes."""
import os
import sys

import numpy as np

sys.path.insert(0, os.path.dirname(os.path.dirname(os.path.abspath(__file__))))
from mcphot.ref import c15_options as O        # noqa: E402
from mcphot.ref import registry as R           # noqa: E402

fails = []


def check(ok, msg):
    if not ok:
        fails.append(msg)
        print('FAIL', msg)


# --- NDData forms: sigma recovered with plain numpy from every form ------------------------------------------------
import astropy.units as u                      # noqa: E402
sigma = np.array([[4.0, 5.0], [7.0, 30.0]])
check(len(R.NDDATA_FORMS) == 11 and len(set(R.NDDATA_FORMS)) == 11, 'NDDATA_FORMS: 2 (unit-less) + 8 (unit-ful) + CCDData')
for form in R.NDDATA_FORMS:
    base, *tokens = form.split('+')
    check(R.nddata_base(form) == base, f'{form}: base')
    unc = R.nddata_uncertainty(tokens, sigma, u.Jy if base == 'nddata_q' else None)
    power = {'std': 1, 'var': 2, 'ivar': -2}[[t for t in tokens if t in R.NDDATA_UNC_TYPES][0]]
    check(unc.uncertainty_type == {1: 'std', 2: 'var', -2: 'ivar'}[power], f'{form}: type')
    back = np.asarray(unc.array, float) ** (1.0 / power)
    if 'other' in tokens:
        check(unc.unit == u.mJy ** power, f'{form}: unit {unc.unit}')
        back = back / 1000.0
    elif 'unit' in tokens:
        check(unc.unit == u.Jy ** power, f'{form}: unit {unc.unit}')
        check(power != 1 or unc.unit is u.Jy, f'{form}: the identical unit object')
    else:
        check(unc._unit is None, f'{form}: no unit of its own')
    check(np.allclose(back, sigma, rtol=1e-15, atol=0), f'{form}: holds sigma')
try:
    R.nddata_uncertainty(('std', 'unit'), sigma, None)
    check(False, 'unit-ful uncertainty in a unit-less container must be NotApplicable')
except R.NotApplicable:
    pass

# --- environments: the same numbers in every representation -------------------------------------------------------------
e0 = O.Env('f8', 0)
for rep in O.REPS:
    env = O.Env(rep, 0)
    d, e, m = env.image(env.sub, error=env.err, mask=env.maskpix)
    if rep in O.ND_REPS:
        check(e is None and m is None, f'{rep}: error and mask travel inside the container')
        check(np.array_equal(d.data, e0.sub) and np.array_equal(d.uncertainty.array, e0.err) and np.array_equal(d.mask, e0.maskpix), f'{rep}: numbers')
        check((d.unit is None) == (rep == 'nddata'), f'{rep}: unit')
        check(type(d).__name__ == ('CCDData' if rep == 'ccddata' else 'NDData'), f'{rep}: class')
        d2, _, m2 = env.image(env.raw, mask=env.maskpix, nd_mask=False)
        check(d2.mask is None and np.array_equal(m2, e0.maskpix), f'{rep}: keyword mask')
    else:
        check(d.unit is u.Jy and e.unit is u.Jy and np.array_equal(d.value, e0.sub) and np.array_equal(e.value, e0.err), f'{rep}: numbers')
    q = env.q(3.0)
    check((getattr(q, 'unit', None) is u.Jy) == (rep in O.UNITFUL), f'{rep}: companion unit')
check(np.array_equal(e0.raw, np.round(e0.raw)) and np.array_equal(e0.err, np.round(e0.err)), 'integer valued scene')
check(e0.maskpix.sum() >= 5 and e0.coverage.sum() > 100, 'mask / coverage mask have True pixels')

# --- enumerations --------------------------------------------------------------------------------------------------------
for e in O.ENTRIES.values():
    full, quick = O.combos(e, 'thorough'), O.combos(e, 'quick')
    check(len(full) == int(np.prod([len(v) for v in e.axes.values()])), f'{e.label}: thorough = full product')
    keyf = {tuple(sorted((k, str(v)) for k, v in o.items())) for o in full}
    check(all(tuple(sorted((k, str(v)) for k, v in o.items())) in keyf for o in quick), f'{e.label}: quick is a sub-product')
    check(len(quick) > 0 and all(k in e.axes for k in e.quick), f'{e.label}: quick keys')
    for k, vals in e.axes.items():         # every value of every axis appears in the thorough product; first values in quick
        check({str(o[k]) for o in full} == {str(v) for v in vals}, f'{e.label}: axis {k}')
b = O.ENTRIES['Background2D']
q = O.combos(b, 'quick')
check(len(O.combos(b, 'thorough')) == 2048 and len(q) == 108, f'Background2D sizes {len(O.combos(b, "thorough"))} / {len(q)}')
check({(o['coverage_mask'], str(o['fill_value']), o['interpolator']) for o in q}
      == {(c, str(f), i) for c in ('none', 'some') for f in (0.0, 'nan', -1.5) for i in ('zoom', 'idw')}, 'quick: coverage x fill x interpolator in full')
check(O.reps_of(O.ENTRIES['extract_stars']) == O.ND_REPS and O.reps_of(O.ENTRIES['find_peaks']) == ('quantity',), 'reps_of')

# the plain model of extract_stars against a direct slice
out = O.run(O.ENTRIES['extract_stars'], e0, {'uncertainty': 'std', 'mask': 'some'})
w = out['star0.weights'][1]
check(w.shape == (9, 9) and (w == 0).sum() == e0.maskpix[10:19, 11:20].sum(), 'extract_stars model: masked weights are 0')

print('test_c15_options:', 'FAILED' if fails else 'ok', f'({len(fails)} failures)')
sys.exit(1 if fails else 0)
