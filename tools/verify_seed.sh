#!/bin/bash
# tools/verify_seed.sh <src dir with patch.diff demo.py NOTES.md> <name> <property> "<needs>"
# Confirms in a fresh scratch worktree: demo exits 0 without the patch, 1 with it, baseline suite unchanged with it.
# On success copies the seed to /verif/seeded/<name>/ with meta.json.
src="$1"; name="$2"; prop="$3"; needs="$4"
wt="/tmp/wt-verify-$name"
/verif/tools/rmworktree.sh "$wt" 2>/dev/null
/verif/tools/mkworktree.sh "$wt" >/dev/null || exit 2
cd "$wt"
PYTHONPATH="$wt" /venv/bin/python -W ignore "$src/demo.py" >/tmp/vs-$name-clean.out 2>&1; c0=$?
git apply "$src/patch.diff" || { echo "PATCH DOES NOT APPLY"; /verif/tools/rmworktree.sh "$wt"; exit 2; }
PYTHONPATH="$wt" /venv/bin/python -W ignore "$src/demo.py" >/tmp/vs-$name-patched.out 2>&1; c1=$?
/verif/tools/baseline.sh "$wt" -n 8 > /tmp/vs-$name-base.out 2>&1; base=$(head -1 /tmp/vs-$name-base.out); grep MISSING /tmp/vs-$name-base.out | head -5
cd /
/verif/tools/rmworktree.sh "$wt"
echo "$name: demo clean exit=$c0 patched exit=$c1 baseline: $base"
if [ "$c0" = 0 ] && [ "$c1" != 0 ] && echo "$base" | grep -q "stable_missing=0"; then
  mkdir -p /verif/seeded/$name
  cp "$src/patch.diff" "$src/demo.py" /verif/seeded/$name/
  [ -f "$src/NOTES.md" ] && cp "$src/NOTES.md" /verif/seeded/$name/
  python3 - "$name" "$prop" "$needs" "$c0" "$c1" "$base" <<'PY'
import json, sys
name, prop, needs, c0, c1, base = sys.argv[1:]
import subprocess
base = subprocess.run(['git', '-C', '/repo', 'rev-parse', '--short', 'HEAD'], capture_output=True, text=True).stdout.strip()
json.dump({'property': prop, 'needs_to_manifest': needs, 'base': base,
           'confirmed': {'demo_exit_clean': int(c0), 'demo_exit_patched': int(c1), 'baseline_with_patch': base,
                         'how': 'tools/verify_seed.sh in a fresh scratch worktree of /repo HEAD'},
           'origin': 'independent sub-agent given only the property text and a scratch worktree'},
          open(f'/verif/seeded/{name}/meta.json', 'w'), indent=1)
PY
  echo "KEPT /verif/seeded/$name"
else
  echo "REJECTED $name"; tail -n 5 /tmp/vs-$name-clean.out /tmp/vs-$name-patched.out
fi
