#!/bin/bash
# tools/applyfix.sh <slug> [msgfile]  -> apply proposed_fixes/<slug>.diff to /repo and commit with its .msg
set -e
slug="$1"; msg="${2:-/verif/proposed_fixes/$slug.msg}"
cd /repo
[ -z "$(git status --porcelain --untracked-files=no)" ] || { echo "repo dirty"; exit 2; }
git apply --index "/verif/proposed_fixes/$slug.diff"
# commit message: describe the code change only
python3 - "$msg" > /tmp/applyfix.msg <<'PY'
import sys, re
paras = open(sys.argv[1]).read().strip().split('\n\n')
keep = [p for p in paras if not re.match(r'\s*(Found by|shortest history)', p) and '/verif' not in p and 'clause|site' not in p]
print('\n\n'.join(keep))
PY
git commit -q -F /tmp/applyfix.msg
git log --oneline | head -1
