#!/bin/bash
# tools/applyfix.sh <slug> [msgfile]  -> apply proposed_fixes/<slug>.diff to /repo and commit with its .msg
set -e
slug="$1"; msg="${2:-/verif/proposed_fixes/$slug.msg}"
cd /repo
[ -z "$(git status --porcelain --untracked-files=no)" ] || { echo "repo dirty"; exit 2; }
git apply --index "/verif/proposed_fixes/$slug.diff"
# commit message: describe the code change only
grep -v -i "^Found by \./check\|^shortest history:\|/verif\|replay" "$msg" > /tmp/applyfix.msg
git commit -q -F /tmp/applyfix.msg
git log --oneline | head -1
