#!/bin/bash
# Run the repository's baseline test command (guard OFF) and compare the pass set
# with /root/.vp/BASELINE.json stable_pass.  Usage: tools/baseline.sh [repo] [-n 16]
# exit 0 iff every stable_pass test still passes.
repo="${1:-/repo}"; shift
out="$(mktemp -d /tmp/baseline.XXXXXX)"
unset PHOTUTILS_VERIF
( cd "$repo" && /venv/bin/python -m pytest -q -p no:cacheprovider --timeout=900 \
    --continue-on-collection-errors --junitxml="$out/junit.xml" "$@" >"$out/log" 2>&1 )
/venv/bin/python - "$out/junit.xml" <<'PY'
import json, sys, xml.etree.ElementTree as ET
base = json.load(open('/root/.vp/BASELINE.json'))
stable = set(base['stable_pass'])
passed, failed = set(), set()
for tc in ET.parse(sys.argv[1]).getroot().iter('testcase'):
    tid = f"{tc.get('classname')}::{tc.get('name')}"
    bad = any(ch.tag in ('failure', 'error', 'skipped') for ch in tc)
    (failed if bad else passed).add(tid)
missing = sorted(stable - passed)
print(f'passed={len(passed)} failed_or_skipped={len(failed)} stable={len(stable)} stable_missing={len(missing)}')
for m in missing[:40]:
    print('  MISSING', m)
sys.exit(1 if missing else 0)
PY
rc=$?
rm -rf "$out"
exit $rc
