#!/bin/bash
# Convert proposed_fixes/mutants/CNN-name.diff (written by module authors) into mutants/CNN-name/{patch.diff,meta.json}
cd /verif
for f in proposed_fixes/mutants/C*.diff; do
  [ -e "$f" ] || continue
  n=$(basename "$f" .diff); p=${n%%-*}
  mkdir -p mutants/$n
  cp "$f" mutants/$n/patch.diff
  note=""; [ -f "proposed_fixes/mutants/$n.txt" ] && note=$(head -c 400 "proposed_fixes/mutants/$n.txt" | tr '\n"' '  ')
  [ -f mutants/$n/meta.json ] || printf '{"property": "%s", "note": "%s", "origin": "module author (detection demonstration)"}\n' "$p" "$note" > mutants/$n/meta.json
done
ls mutants | wc -l
