#!/bin/bash
# tools/thorough_sweep.sh [ids...]  — run thorough tiers one after the other (background use), summary lines to stdout
cd "$(dirname "$0")/.."
ids="${@:-C19 C18 C16 C17 C10 C15 C13 C02 C01 C09 C11 C12 C08 C03 C05 C04 C06 C20 C07 C14}"
for id in $ids; do
  t0=$(date +%s)
  out=$(./check $id --tier thorough --nproc ${SWEEP_NPROC:-6} 2>&1); rc=$?
  t1=$(date +%s)
  echo "$id rc=$rc wall=$((t1-t0))s :: $(echo "$out" | tail -1 | cut -c1-250)"
  if [ $rc -ne 0 ]; then echo "$out" | grep -E "VIOLATION|HARNESS|UNCONFIRMED|clause=|case=" | head -20; fi
  echo "$out" | grep KNOWN | cut -c1-160
done
