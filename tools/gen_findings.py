#!/usr/bin/env python3
"""Regenerate /verif/known_findings.json from the tables below (hand-maintained; never run by a check)."""
import json
import os

VERIF = os.path.dirname(os.path.dirname(os.path.abspath(__file__)))

# (property, key pattern (clause|site, fnmatch), what fails)  -- genuine defects recorded, not repaired
OPEN = [
    ('C01', 'exact-weights|e*:exact:*+degenerate',
     "EllipticalAperture/EllipticalAnnulus method='exact': wrong or NaN weight for a pixel that has a corner exactly on "
     'the ellipse or an edge tangent to it (geometry/core.pyx overlap_area_triangle_unit_circle mishandles triangle '
     'vertices on the unit circle), e.g. EllipticalAperture((3,-6.5),0.5,0.5) gives 0.3213 instead of pi/8; the repair '
     'needs a Cython rebuild (not available here), see proposed_fixes/C01-ellipse-exact-vertex-on-ellipse.*'),
    ('C03', 'shift:*|ApertureStats[[]EllipticalAnnulus,exact[]].*',
     'ApertureStats with an EllipticalAnnulus, sum_method=exact and sigma_clip: the exact mask carries +-1e-16 weights on '
     'pixels fully inside the inner ellipse; which of them are exactly 0 depends on the integer offset, so the sigma-clip '
     'sample and sum/sum_err/sum_aper_area change under translation (scene 2, shift (0,16)); the kernel has no interior '
     'shortcut (Cython rebuild needed)'),
    ('C06', 'narrow-label-dtype|labels-near-dtype-max',
     'deblend_sources on a SegmentationImage of a narrow integer dtype whose labels are near the dtype maximum (uint8 labels '
     '252,255): child labels wrap around / relabel map gets size 0 (IndexError); the repair changes the output dtype policy, '
     'see proposed_fixes/C06-narrow-label-dtype-overflow.*'),
    ('C17', 'commutes|[12]dg:ladder:*',
     "centroid_1dg / centroid_2dg do not commute with rescaling of the data by many orders of magnitude (data * 2**-40, data * 2**80, flux units ~1e-17): scipy least_squares stops on an absolute gradient tolerance and on the norm of the whole parameter vector, so the fit returns the moment start values (0.07-0.35 px away), e.g. 9x5 blob: centroid_1dg(data) = (2.3641, 3.8060) but (2.2498, 3.8443) on data * 2**-120; moderate factors (x2, x1e-3) commute and stay checked under the non-ladder keys; the repair (normalise before the fit) changes every Gaussian fit's convergence path and two pinned test outcomes, see proposed_fixes/C17-gaussian-centroids-depend-on-data-units.*"),
    ('C17', 'sources-commutes|[12]dg:ladder:*',
     'centroid_sources with centroid_1dg / centroid_2dg on an image rescaled by 2**+-120: same defect as commutes|[12]dg:ladder:* '
     '(the Gaussian fit stops at its start values)'),
    ('C17', 'symmetry-centre|[12]dg:ladder:large',
     'centroid_1dg / centroid_2dg on a point-symmetric source scaled by 2**120 and more (thorough tier): same defect as '
     'commutes|[12]dg:ladder:* (step tolerance met by any step of the centre)'),
    ('C17', 'sym-raises|1dg:ladder:large',
     'centroid_1dg on a point-symmetric source scaled by 2**120 (thorough tier; 9x8, centre (8,3), masked garbage) raises '
     "ValueError('`x` is not within the trust region'): same defect as commutes|[12]dg:ladder:* (the fit is run on data of "
     'huge magnitude; silent with proposed_fixes/C17-gaussian-centroids-depend-on-data-units.diff applied)'),
    ('C13', 'prf-sum|GaussianPRF:theta%90!=0',
     'GaussianPRF with theta not a multiple of 90 deg does not sum to its flux on the pixel grid for small widths '
     '(-1.3 % at fwhm 0.3, theta 30 deg; up to -69 % at fwhm 0.2): the erf product integrates over rotated pixels, which do '
     'not tile the plane; no closed-form repair'),
]

# (property, commit, key pattern, what failed)  -- repaired by a "fix:" commit in /repo; suppress nothing
FIXED = [
    ('C05', 'c021998', 'data-effect|remove_border_labels:width=0',
     'remove_border_labels(border_width=0) removed every label (border_mask[-0:] selects the whole array)'),
    ('C05', 'dbe5d86', 'attr-polygons-count|*',
     'polygons/segments had one entry per connected region (segments raised ValueError for a non-contiguous label) and '
     'dropped the first source when the array has no background pixel'),
    ('C05', '58dc0fb', 'deblend-names-absent-label|*',
     'deblended_labels / deblended_labels_map / deblended_labels_inverse_map named label 0 after a deblended child was '
     'removed (history: deblend root, keep_label(1))'),
    ('C05', '0220e3a', 'data-effect|keep_label:relabel=True',
     'relabel=True was ignored when nothing had to be removed (history: keep_label(1); reassign_label(1,4); '
     'keep_label(4, relabel=True) left label 4)'),
    ('C03', '446831d', 'shift:value|SourceCatalog.background_centroid',
     'SourceCatalog.background_centroid passed (x, y) to map_coordinates (x/y swapped); any dx != dy offset'),
    ('C07', '446831d', '*background_centroid*',
     'SourceCatalog.background_centroid interpolated the background at the transposed position'),
    ('C07', '0fbf4a3', '*background_*dtype:float<64',
     'SourceCatalog kept a float32/float16 background in its narrow dtype: background_sum/background_mean accumulated '
     'in float32/float16, background_centroid rounded to float32, float16 background raised RuntimeError in map_coordinates'),
    ('C07', 'd3130d4', 'segment_flux|localbkg:*detcat*',
     'SourceCatalog.segment_flux with localbkg_width > 0 and a detection_cat subtracted local_background times the '
     'DETECTION catalog area: wrong when the measurement image has non-finite pixels in a segment that the detection image lacks'),
    ('C07', '93227df', '*covar*',
     'semimajor_sigma/orientation/... NaN for thin (collinear-pixel) sources whose covariance determinant rounds to -1e-17'),
    ('C08', '2cb2f2c', '*extra*',
     'cat[idx] shared the _extra_properties list with its parent: child.add_extra_property made the parent advertise it'),
    ('C08', '1c5b0e2', '*centroid_quad*',
     'scalar SourceCatalog: cutout_centroid_quad fallback raised IndexError when the quadratic fit fails'),
    ('C08', 'd8ee267', 'child-raises|SC._max_circular_kron_radius:scalar-child',
     'scalar SourceCatalog (cat[5]) at the minimum circular Kron radius: fluxfrac_radius / centroid_win raised TypeError (item assignment on a numpy scalar)'),
    ('C09', '6dc805c', 'read-raises|Background2D.background_mesh:filter_threshold:cached=background_rms_mesh',
     'Background2D(filter_threshold=...): reading background_rms(_mesh) then background(_mesh) raised TypeError'),
    ('C09', 'ece375e', 'config-changed|PSFPhotometry.grouper',
     'a PSFPhotometry call whose init_params has group_id set self.grouper = None for good'),
    ('C09', '2f94be6', 'read-differs-from-fresh|RadialProfile.data_profile',
     'normalize()/unnormalize() rescaled data_profile only if it was already cached'),
    ('C19', '2f94be6', 'restores|data_profile:unnormalized',
     'history normalize(max); read data_profile; unnormalize left data_profile multiplied by the normalisation'),
    ('C09', '703cd5c', 'config-changed|Ellipse.geometry.*',
     'Ellipse.fit_image(linear=/fix_*=) overrides stayed in the geometry for later calls (160 isophotes instead of 23)'),
    ('C09', '3a30b2f', 'config-changed|StarFinder.kernel', 'StarFinder rescaled its kernel in place on every call'),
    ('C12', 'c4f68ba', 'groups|supplied-group_id',
     'a supplied group_id column was overwritten by id: user groups were fitted one by one (N=2, group_id=[1,1])'),
    ('C12', 'bfaff49', 'raises|nan=nan*+mask:NonFiniteValueError',
     '_make_mask returned the user mask without the non-finite pixels: NaN pixel + user mask crashed the fit'),
    ('C12', '2178c80', 'flag16|fitter=simplex', 'flag 16 loop aborted on KeyError, so flag 16 was never set'),
    ('C12', 'abeb08b', 'flag32|at-bound',
     'flag 32 used exact float equality with the bound: never set with the default TRF fitter (fit ends 1.8e-15 inside)'),
    ('C11', '8d54d91', 'exclusion-rule|masked-fraction==exclude_percentile',
     'a box with exactly exclude_percentile percent masked pixels was excluded (ngood <= threshold): exclude_percentile=0 '
     'always raised "All boxes contain <= N good pixels"'),
    ('C13', 'b831533', 'gridded-blend|single-row-or-column',
     'GriddedPSFModel with a 1xN / Nx1 / 1x1 grid evaluated to NaN (clip(idx, 0, -1))'),
    ('C14', '1a1db0d', 'peak-set|missing:negative-maximum-next-to-image-edge',
     'find_peaks padded the maximum filter with 0: a negative local maximum next to the image edge was never reported'),
    ('C14', 'b3bb850', 'peak-set|extra:nan-pixel-reported',
     'find_peaks reported a NaN pixel as a peak with peak_value = image minimum (3x3 of -2 with a NaN centre, threshold -3)'),
    ('C14', '5de72cb', 'sf-detect|peaks:non-integer-min_separation',
     'star finders built an even-sized, off-centre footprint for a non-integer min_separation (4.5)'),
    ('C16', '9c03869', 'centroid|centroid:box-cut-low*',
     'ApertureStats centroid too small by the trimmed pixel count when the aperture box passes the left/bottom image edge'),
    ('C16', 'a3d9111', 'nan-iff-empty|sum_aper_area:centre-set-empty',
     'sum_aper_area was NaN when no pixel centre is inside the aperture although sum is finite (r=0.3 at a pixel corner)'),
    ('C17', '587ebc7', 'sources-per-position|kw=*:later-position',
     'centroid_sources re-used the kwargs dict: error / xpeak / ypeak were re-sliced for every position after the first'),
    ('C18', 'b2d12b9', 'render-raises|unitful:first-row-off-image:UnitTypeError',
     'make_model_image attached units only when table row 0 overlaps the image'),
    ('C18', '8fc5be4', 'render-raises|row-window-abuts-image-border:ValueError',
     'a source whose window ends exactly at the image border raised ValueError (ndarray shape passed to astropy overlap_slices)'),
    ('C19', 'db78b58', 'ee-roundtrip|last-monotone-point',
     'CurveOfGrowth.calc_radius_at_ee dropped the last monotone point (radius[0:idx])'),
    ('C20', '52eeda2', 'accuracy|[xy]0:nn',
     "integrmode='nearest_neighbor' read pixel (floor(x), floor(y)) instead of the nearest pixel: every fitted centre was "
     'biased by +0.5 px in x and y on noise-free elliptical galaxies'),
    ('C20', '6ef7e68', 'sma-range|below-minsma',
     'Ellipse.fit_image returned an isophote below minsma (sma0=10, step=0.1, minsma=9.5 -> first inward isophote at 9.09)'),
    ('C20', 'e16ee6a', 'model|pa-wraps-between-isophotes',
     'build_ellipse_model splined raw PA values that alternate between ~0 and ~pi for galaxies aligned with the x axis: 4-62 % of the '
     'fitted region wrong'),
    ('C09', '86bc028', 'config-changed|Ellipse.geometry.*:after-*',
     'Ellipse.fit_image kept linear/fix_* overrides after the "Everything is fixed" return and after an exception inside the fit'),
    ('C15', '78c6ffb', 'repr-differs|*:*i1*',
     'error**2 computed in the integer dtype of the error array: aperture_sum_err / sum_err / segment_fluxerr / profile_error / calc_total_error wrong or NaN for uint8/int8/int16 errors'),
    ('C15', 'be13084', 'repr-differs|deblend_sources:*u*',
     'deblend_sources negated unsigned images (wrap-around): different segmentation for uint64 than for float64'),
    ('C10', '7feda3d', 'input-mutated|centroid_?dg:data', 'centroid_1dg/2dg modified mask and fill_value of a MaskedArray input'),
    ('C10', 'f9b16e8', 'input-mutated|grid_from_epsfs:meta', "grid_from_epsfs added keys to the caller's meta dict"),
    ('C10', '7313ebf', 'input-mutated|RadialProfile:mask', "profiles did mask |= badmask on the caller's mask"),
    ('C10', '7529072', 'input-mutated|StarFinder():data', "StarFinder zeroed negative pixels in the caller's image (cutouts are views)"),
    ('C10', '3a30b2f', 'input-mutated|StarFinder():kernel', "StarFinder divided the caller's kernel in place"),
    ('C10', '29d58d3', 'input-mutated|extract_stars:nddata_weights',
     "extract_stars zeroed the masked pixels in the caller's 'weights'-type uncertainty array (np.asanyarray alias)"),
    ('C15', '3a30b2f', 'repr-raises|StarFinder():int', 'StarFinder failed for an integer kernel (in-place true divide)'),
    ('C15', '2af8905', 'repr-raises|calc_total_error:int', 'calc_total_error failed for integer data (in-place true divide on an int copy)'),
    ('C15', '4bd3397', 'repr-raises|Background2D.background_mesh_masked:int', 'background_mesh_masked failed for integer data (NaN into an int mesh)'),
    ('C15', 'aaa69e8', 'mixed-accepted|centroid_sources:mixed_*', 'centroid_sources swallowed the units error and returned NaN for unit-ful data + unit-less error'),
    ('C15', '17a60e1', 'repr-differs|*:ma_empty', 'aperture sum over no unmasked pixel was NaN for MaskedArray data but 0 for ndarray'),
    ('C15', 'e8c2e63', 'repr-raises|SourceCatalog.background_centroid:int', 'SourceCatalog.background_centroid failed for an integer background array'),
]


def main():
    findings = []
    for prop, key, what in OPEN:
        findings.append({'property': prop, 'status': 'open', 'key': key, 'what': what})
    for prop, commit, key, what in FIXED:
        findings.append({'property': prop, 'status': 'fixed', 'commit': commit, 'key': key,
                         'line': f'fixed: property={prop} {commit} {what}'})
    doc = {'comment': 'Committed by hand (tools/gen_findings.py), never written at run time. status=open entries are printed '
                      'as KNOWN-FINDING and suppress only violations whose key (clause|site, computed by the property module '
                      'from the failing case) matches; status=fixed entries suppress nothing: if the violation returns it is '
                      'reported as VIOLATION.',
           'findings': findings}
    with open(os.path.join(VERIF, 'known_findings.json'), 'w') as fh:
        json.dump(doc, fh, indent=1)
    print(len(OPEN), 'open,', len(FIXED), 'fixed')


if __name__ == '__main__':
    main()
