#!/bin/bash
# tools/mkseed.sh C05 a   -> scratch worktree /tmp/seed-C05-a for an independent seeding agent
set -e
id="$1"; tag="${2:-a}"
d="/tmp/seed-$id-$tag"
/verif/tools/mkworktree.sh "$d" >/dev/null
mkdir -p /tmp/seedtools; cp /verif/tools/baseline.sh /tmp/seedtools/baseline.sh
python3 - "$id" "$d" <<'PY'
import json, sys
pid, d = sys.argv[1], sys.argv[2]
for l in open('/verif/properties.jsonl'):
    p = json.loads(l)
    if p['id'] == pid:
        open(d + '/PROPERTY.txt', 'w').write(f"{p['id']}: {p['title']}\n\n{p['statement']}\n\nQuantified over: {p['quantifier']['text']}\n")
PY
echo "$d"
