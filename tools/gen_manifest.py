#!/usr/bin/env python3
"""Regenerate /verif/MANIFEST.json from the registry below (keeps it valid at all times)."""
import json
import os
import subprocess

VERIF = os.path.dirname(os.path.dirname(os.path.abspath(__file__)))

# property id -> (level category, technique, level text, level_note, design_ref)
CHECKS = {
    'C05': ('model_checking',
            'explicit-state BFS over operation/read histories executed on the real SegmentationImage, '
            '__dict__-digest state dedup, reference label-array model + fresh-object differential oracle',
            'Every history of public mutators / attribute reads / data assignment / copy up to the stated depth '
            '(quick: depth 3 on the doc-example and deblended roots, depth 2 on 9 further roots, depth 1 on all 4096 '
            '2x3 arrays over {0,1,2,5}; thorough: depth 3 everywhere, depth 2 on the 4096 arrays) is executed on the '
            'real class; in every distinct state every derived attribute is compared with a reference model and a fresh '
            'object. Bounded-exhaustive, not a proof for longer histories or larger label alphabets.',
            'Trusted: numpy, scipy.ndimage.find_objects, rasterio/shapely; state = instance __dict__ digest.',
            'DESIGN.md section 4 C05'),
    'C04': ('exploration',
            'small-scope exhaustive enumeration: every image of the listed small shapes over a 4/6-symbol pixel alphabet x '
            'connectivity x npixels x threshold form, vs. a pure-Python union-find labelling reference',
            'All images up to 3x3 (quick) / 3x4 and binary 4x4 (thorough) over {below, ==threshold, above, NaN, +inf, masked} '
            'are labelled by the real detect_sources and compared bit-exactly with an independent union-find reference, '
            'including None/NoDetectionsWarning, pre-seeded caches vs a fresh SegmentationImage, detect_threshold and '
            'SourceFinder(deblend=False). Exhaustive within the bound; larger frames are not covered.',
            'Trusted: numpy comparisons. scipy.ndimage.label is not trusted (re-derived).',
            'DESIGN.md section 4 C04'),
}

NOT_BUILT_REASON = ('check not built yet (bounded exhaustive design exists in DESIGN.md section 4; '
                    'listed here until its command is registered, so that nothing unverified is claimed)')

ALL = [f'C{n:02d}' for n in range(1, 21)]


def hook_commits():
    return []


def main():
    checks = []
    for pid in ALL:
        if pid not in CHECKS:
            continue
        cat, tech, text, note, ref = CHECKS[pid]
        checks.append({
            'property_id': pid,
            'quick_cmd': f'./check {pid} --tier quick',
            'thorough_cmd': f'./check {pid} --tier thorough',
            'evidence_file': f'evidence/{pid}.json',
            'replay_cmd_template': f'./check {pid} --replay {{path}}',
            'engine': 'mcphot',
            'level_claimed': {'category': cat, 'text': text, 'design_ref': ref},
            'level_note': note,
            'technique': tech,
        })
    na = [{'property_id': pid, 'reason': NOT_BUILT_REASON} for pid in ALL if pid not in CHECKS]
    doc = {
        'version': 1,
        'setup_cmd': './setup.sh',
        'hooks': {
            'guard': 'PHOTUTILS_VERIF',
            'enable': 'no source hooks are needed: the harness rebinds module-level names from outside '
                      '(executor, as_completed) and imports photutils from the working tree via PYTHONPATH=$VERIF_REPO',
            'baseline_off_cmd': 'cd /repo && /venv/bin/python -m pytest -ra -q -p no:cacheprovider --timeout=900 '
                                '--continue-on-collection-errors',
            'source_commits': hook_commits(),
            'add_only': True,
        },
        'engines': [{
            'name': 'mcphot',
            'path': 'mcphot/',
            'serves_properties': sorted(CHECKS),
            'kind_free_text': 'hand-written bounded exhaustive explorer for Python: explicit-state BFS over histories '
                              'on the real objects (explorer.py), permutation-driven executor for schedules '
                              '(schedules.py), full-product input enumeration (space.py), reference models (ref/)',
        }],
        'checks': checks,
        'not_applicable': na,
        'notes': 'Exit 0 = held on everything explored (KNOWN-FINDING lines possible), exit 1 = VIOLATION line, '
                 'exit 2 = harness error. VERIF_SEED/VERIF_TIER honoured. VERIF_REPO selects the tree (default /repo).',
    }
    with open(os.path.join(VERIF, 'MANIFEST.json'), 'w') as fh:
        json.dump(doc, fh, indent=1)
    env = {k: v for k, v in os.environ.items() if k != 'PYTHONPATH'}
    r = subprocess.run(['python3-vt', '-c',
                        'import json,jsonschema,sys; jsonschema.validate(json.load(open(sys.argv[1])), json.load(open(sys.argv[2]))); print("MANIFEST valid")',
                        os.path.join(VERIF, 'MANIFEST.json'), os.path.join(VERIF, 'schemas', 'MANIFEST.schema.json')], env=env)
    raise SystemExit(r.returncode)


if __name__ == '__main__':
    main()
