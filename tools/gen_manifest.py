#!/usr/bin/env python3
"""Regenerate /verif/MANIFEST.json from the registry below (keeps it valid at all times)."""
import json
import os
import subprocess

VERIF = os.path.dirname(os.path.dirname(os.path.abspath(__file__)))

# property id -> (level category, technique, level text, level_note, design_ref)
CHECKS = {
    'C01': ('exploration',
            'small-scope exhaustive input enumeration: full Cartesian product of aperture family x size x axis ratio x angle '
            'x centre x method, vs. an independent polygon-disk line-integral reference / counted sub-pixel centres; '
            'all integer boxes x image shapes for the overlap logic',
            'Every mask of the stated product (~240 k masks quick, ~2.4 M thorough; alphabets built from the shortcuts in the '
            'kernels: radii through pixel corners/centres/tangent to edges, near-degenerate ellipses, half-integer centres, '
            'multiples of pi/4) is compared per pixel with an independent reference; bounding boxes are judged minimal/containing '
            'with rational arithmetic; all 67 600 box x image-shape cases and all 194 481 box pairs are enumerated; theta is also given '
            'as np.float64 / Quantity[rad|deg|arcmin] / Angle (bit-identical or judged at the radian value); every parameter is '
            're-assigned one at a time after all caches were filled and every read compared with a fresh aperture. '
            'Bounded-exhaustive over the alphabets, not over the continuum between alphabet points.',
            'Trusted: the reference geometry (self-tested against brute-force sub-sampling), numpy. Kernels are tested as compiled '
            '(.c -> .so rebuilt by gcc when stale; .pyx cannot be regenerated here).',
            'DESIGN.md section 4 C01, 9.3'),
    'C02': ('exploration',
            'small-scope exhaustive input enumeration: image shape x aperture x method x all 64 positions x all single-pixel/row/'
            'column/all masks (3x3: all 512 masks) x NaN/inf variants x error, vs. a direct pixel loop with harness-owned registration',
            'Every (configuration, position) of the product (4.8 M quick) is executed on do_photometry/area_overlap and compared '
            'with a direct loop over image pixels; the other call forms (aperture_photometry, lists, NDData, Quantity, sky) run on a '
            'stated sub-product; linearity and blindness to masked / zero-weight pixel values are checked bit-exactly.',
            'Aperture weights are taken from the aperture\'s own mask (C01 vouches for them); this check owns registration, masks, '
            'NaN handling (data and error maps), table assembly and parameter re-assignment (bit-identical to a fresh aperture). Images up to 6x6.',
            'DESIGN.md section 4 C02'),
    'C03': ('exploration',
            'exhaustive product of scenes x integer offsets x pad widths x API configurations under a metamorphic (translation / '
            'transposition covariance) oracle with an explicit position-like / position-free classification of every output',
            'For 4 (quick) / 8 (thorough) asymmetric non-square scenes every offset (dx,dy) in {0,1,2,5}x{0,1,3,7} (thorough 5x5), '
            'every pad and every listed API configuration is run on the base and the embedded/transposed inputs; position-like '
            'outputs must shift exactly, everything else must not change, for all rows whose footprint lies in the original frame. '
            'Every scene carries six pathological segments (diagonal, single pixel, one row, negative, fully masked, edge peak) so the '
            'per-source fallback branches run; every auxiliary array (error, mask, background, threshold map) is non-constant.',
            'No reference model (metamorphic). A defect that is itself translation covariant is invisible here (C07/C16 cover those). '
            'Footprints are computed from inputs and documented radii with one pixel margin.',
            'DESIGN.md section 4 C03'),
    'C04': ('exploration',
            'small-scope exhaustive enumeration: every image of the listed small shapes over a 4/6-symbol pixel alphabet x '
            'connectivity x npixels x threshold form, vs. a pure-Python union-find labelling reference',
            'All images up to 3x3 (quick) / 3x4 and binary 4x4 (thorough) over {below, ==threshold, above, NaN, +inf, masked} '
            'are labelled by the real detect_sources and compared bit-exactly with an independent union-find reference, '
            'including None/NoDetectionsWarning, pre-seeded caches vs a fresh SegmentationImage, detect_threshold and '
            'SourceFinder(deblend=False); a binary 4x5 space with npixels 10 covers pruning with interleaved bounding boxes; '
            'detect_threshold over {None, scalar, map}^2 x nsigma x mask x image dtype {f8,f4,i4,u1,>f8}. Exhaustive within the bound.',
            'Trusted: numpy comparisons. scipy.ndimage.label is not trusted (re-derived).',
            'DESIGN.md section 4 C04'),
    'C05': ('model_checking',
            'explicit-state BFS over operation/read histories executed on the real SegmentationImage, '
            '__dict__-digest state dedup, reference label-array model + fresh-object differential oracle',
            'Every history of public mutators / attribute reads / data assignment / copy up to the stated depth '
            '(quick: depth 3 on the doc-example and deblended roots, depth 2 on 9 further roots, depth 1 on all 2x2 arrays over '
            '{0,1,2,5} and all 2x3 arrays over {0,1,2}; thorough: depth 3 everywhere, depth 2 on all 4096 2x3 arrays over {0,1,2,5}) '
            '(incl. assignment of arrays of a different shape) is executed on the real class; in every distinct state every derived attribute (incl. shape) is compared with a reference model and a '
            'fresh object. Bounded-exhaustive, not a proof for longer histories or larger label alphabets.',
            'Trusted: numpy, scipy.ndimage.find_objects, rasterio/shapely; state = instance __dict__ digest.',
            'DESIGN.md section 4 C05'),
    'C06': ('model_checking',
            'schedule enumeration under a controlled executor: ALL N! completion orders of the per-source tasks (stub executor / '
            'as_completed injected into photutils.segmentation.deblend, pickle round trips) compared bit-exactly with nproc=1; '
            'conformance pass with the real spawn pool; plus full-product refinement enumeration with a set-partition oracle',
            'For every scene with N <= 4 (quick) / 5 (thorough) deblendable parents x numbering x variant x relabel x contrast x '
            'ORDERED labels= lists (ascending, descending, rotated, scalar; list/array/tuple) x nproc every permutation of task completion is '
            'executed on the real merge code (~18 k schedules quick) and must '
            'equal the serial result; the refinement clauses are decided on the full product of the scene lattice incl. parents with sub-npixels '
            'spikes whose marker numbers have holes (~170 k cases quick).',
            'The stub models the executor API the code uses (asserted: anything beyond submit/context manager/as_completed/result '
            'raises ModelMismatch; the free-running real-pool pass must produce the same API trace shape). N <= 5 parents.',
            'DESIGN.md section 4 C06'),
    'C07': ('exploration',
            'small-scope exhaustive enumeration: every label map over {0,1,2} of a 3x3 / 2x3 / 2x2 (thorough 3x4) window x mask x '
            'non-finite x auxiliary-array x detection-catalog x units x label-numbering configurations, vs. plain-Python definitions',
            'Every catalog of the product (104 k quick, 1.35 M thorough) is built by the real SourceCatalog and every row compared '
            'with the defining formulas evaluated in plain Python (math.fsum); the footprint relation (garbage outside the source) '
            'must leave the row bit-identical.',
            'Sources up to a 3x4 window; localbkg_width 0; Kron/fluxfrac values themselves are not re-derived.',
            'DESIGN.md section 4 C07'),
    'C08': ('model_checking',
            'complete enumeration of the history template (pre-cache set -> index -> evaluate p) over every public property x every '
            'index form x every private/public pre-cache attribute for SourceCatalog and ApertureStats, plus explicit-state BFS '
            '(explorer, __dict__-digest states) over extra-property operations on {parent, child}',
            'cat[idx].p == cat.p[idx] for all public properties plus 14 method-with-argument pseudo-properties, index forms = value x '
            'container (112 executed forms, oracle = numpy applied to arange(n)), pre-cache sets {none, p, everything, each '
            'private lazy attribute} (~260 k histories quick, ~2.2 M thorough) on seven catalog variants incl. one whose sources take every '
            'exceptional per-source branch; extra-property independence by BFS to depth 4 (quick) / '
            '5 (thorough) with a two-dict reference model.',
            'Catalog variants with N in {1,3,4,6}; values of Kron/fluxfrac are only checked to commute with indexing; zero-source selections skipped.',
            'DESIGN.md section 4 C08'),
    'C09': ('model_checking',
            'explicit-state BFS over read/assignment/call histories on the real objects (Background2D, pixel apertures, profiles, '
            'PSFPhotometry/IterativePSFPhotometry, star finders, Ellipse, LocalBackground, GriddedPSFModel), __dict__-digest states, '
            'fresh-object differential oracle',
            'Every history up to the stated depth (Background2D: to the fixpoint of cache states for 192/576 configurations; apertures '
            'depth 3/5; profiles 4/6; PSF photometry 2/3; finders to fixpoint; Ellipse depth 2 over 31 calls) is executed; every call alphabet '
            'contains requests that take each exit class (normal / empty result / raises); every observation must '
            'equal what a fresh object gives for that single request, no request may raise because of earlier ones, configuration '
            'attributes must not change.',
            'A defect that breaks the single request identically on a fresh object is invisible by construction (other properties '
            'cover those).',
            'DESIGN.md section 4 C09'),
    'C10': ('exploration',
            'exhaustive product registry(public entry points, walked from every __all__) x argument representation x data condition '
            'with deep before/after snapshots of every caller-held object after every step (return or raise)',
            '88 call recipes covering 141 of 146 public callables (5 network loaders listed as uncovered) x 7 representations x '
            '6 data conditions x mask forms x a geometry axis (block == image, one row/column of boxes, 1xN images ...); every public property / method '
            '(plotting and methods needing arguments with NON-default arguments, the object itself watched) is its own step (~180 k step '
            'evaluations quick); bit-exact component-wise snapshot comparison.',
            'One scene per condition; documented in-place mutators exempt; geometry helper objects are not watched.',
            'DESIGN.md section 4 C10'),
    'C11': ('exploration',
            'exhaustive structural product (shape x box x edge method x mask x coverage x exclude_percentile x interpolator) and '
            'estimator product, each with bottleneck present and blocked, vs. a plain-Python mesh reference and metamorphic relations',
            '~25 k configurations quick / ~150 k thorough (data kind finite / non-finite crossed with mask x coverage), each also built as constant / '
            'hidden-value variants and shifted / scaled over a magnitude ladder (c up to +-2^30, k from 2^-30 to 2^20, exact dyadic transforms); '
            'mesh values, pixel counts, exclusion rule, filters, fill value, finiteness, zoom range, mask-blindness, equivariance.',
            'Images up to 9x12, boxes up to 4x5; the geometry of the interpolated full map is only checked through range and relations.',
            'DESIGN.md section 4 C11'),
    'C12': ('exploration',
            'exhaustive enumeration of all N! input row orders x all set partitions (Bell numbers) of N <= 3/4 sources as supplied '
            'group_id x configuration axes on a rendered noise-free scene; exact-recovery, bookkeeping and flag oracles; '
            'SourceGrouper on all ordered tuples of lattice points',
            '13 885 cases quick / ~109 k thorough executed on the real PSFPhotometry with a recording fitter; recovery demanded only '
            'of groups well-posed on the input; tolerances calibrated (worst 2.4e-10 px vs 1e-6).',
            'Groups of at most 4 sources; finder path and multi-iteration IterativePSFPhotometry not covered.',
            'DESIGN.md section 4 C12'),
    'C13': ('exploration',
            'exhaustive parameter-lattice enumeration of every PSF/PRF model vs. independent quadrature / lattice sums / bilinear-blend '
            'reference, plus explicit-state BFS (explorer) over evaluation/copy/assignment histories of GriddedPSFModel and ImagePSF',
            '24 316 cases quick / 385 k thorough; history BFS depth 3/4 on four roots (9 470 transitions, 693 states quick): every '
            'evaluation bit-identical to a fresh model.',
            'Widths >= 0.2 px on the stated lattice; scipy.special / numpy trusted; documented profile assumed for Moffat/Airy tails.',
            'DESIGN.md section 4 C13'),
    'C14': ('exploration',
            'small-scope exhaustive enumeration: every 3x3 / 2x3 (thorough 3x4) image over small value alphabets incl. negatives and '
            'NaN x footprint x border x threshold x mask x npeaks, vs. a pixel-by-pixel reference; contract oracle with bound sweeps '
            'for the three star finders on a scene lattice',
            '~1.0 M find_peaks cases quick / ~14 M thorough incl. ALL threshold maps over 2 levels on 2x3 images; star-finder families incl. signed-patch mosaics '
            '(every 3x3 patch over {-,0,+} through xycoords) and zero-mean noise scenes, with every bound set exactly at and '
            'one ulp beyond every reported value, brightest, xycoords, min_separation.',
            'DAOFIND formulas themselves are trusted (contract oracle); scenes up to 21x25 with <= 3 sources.',
            'DESIGN.md section 4 C14'),
    'C15': ('exploration',
            'exhaustive product registry(numerical entry points) x representation (dtype, byte order, layout, container, units) x '
            'condition, each step compared with the float64 baseline; mixed unit-ful/unit-less must be rejected',
            '59 recipes x (dtype {f8,f4,i1..i8,u1..u8} x byte order) + layouts + containers, per-companion unit mixing (each optional argument alone '
            'unit-less / unit-ful / in a convertible other unit), and a large-reduction family (1024x1000 image, 80 entries x 21 representations); unit oracle by '
            'dimensional analysis (scaling the data by 2).',
            'Integer-valued scene so that every representation holds the same numbers; Background2D integer rounding exempt.',
            'DESIGN.md section 4 C15'),
    'C16': ('exploration',
            'exhaustive product aperture spec x data x mask x error x sigma_clip x sum_method x local_bkg x 12 positions (interior, '
            'corner, cut by each edge, outside), vs. direct statistics of the pixel set in plain Python',
            '~138 k (configuration, position) evaluations quick, 29 properties each, incl. an error-condition axis (non-finite error at masked / '
            'zero-weight / clipped / summed pixels); NaN (never an exception) for empty sets.',
            'Shape values judged with the regularisation ambiguity rule; ill-conditioned moment cases skipped by stated rules (counted).',
            'DESIGN.md section 4 C16'),
    'C17': ('exploration',
            'exhaustive enumeration of cutout shapes x symmetry centres x masks x flips/transpose/scale, exact quadratics on a '
            'sub-pixel lattice, and every ordered position list of length <= 3 (4) for centroid_sources',
            '~150 k evaluations quick incl. search-box cases on non-quadratic data with the guess on every pixel; centroid_sources[k] must be '
            'bit-identical to the function called on an independently computed cutout.',
            'Gaussian-fit centroids only on well-posed (>= 4 px support) inputs with calibrated tolerances.',
            'DESIGN.md section 4 C17'),
    'C18': ('exploration',
            'exhaustive enumeration of ALL ordered tables of <= 2 (3) rows over a 9-type row alphabet x 180 model/shape/local_bkg/'
            'discretisation configurations, vs. an order-free additive reference renderer',
            '~31 k renders quick / ~200 k thorough; order invariance and additivity are decided by the same comparison; iterative photometry over a '
            '48-configuration product (estimator local backgrounds, >= 2 iterations, groupers); units, input '
            'unchanged, residual = data - model bit-exactly; PSFPhotometry model/residual images.',
            'integrate discretisation and bbox_factor not covered.',
            'DESIGN.md section 4 C18'),
    'C19': ('exploration',
            'exhaustive product image x centre x radii x mask x error x method vs. an independent pixel-weight reference, plus '
            'explicit-state BFS (explorer) over normalize/unnormalize/first-read histories',
            '~9.5 k profiles (mask x non-finite data/error x cover) + BFS depth 5/7 from 40 roots (class x error x units x image sign structure) incl. '
            'calc_ee_at_radius / calc_radius_at_ee operations; EE round trip in every state.',
            'While normalised only profile/profile_error scale is demanded (the property asks that unnormalize restores).',
            'DESIGN.md section 4 C19'),
    'C20': ('exploration',
            'exhaustive enumeration of a lattice of noise-free galaxies (eps x PA x centre x radial law x initial geometry x growth x '
            'integrmode x fix flags x sma range), each fitted by the real Ellipse.fit_image and compared with the analytic truth; '
            'all integer points of a 9x9 window x 24 geometries for the scalar/array to_polar twins',
            '220 fits quick / 2 416 thorough (union of full-product blocks), plus 7 776 to_polar calls; sorted strictly increasing sma '
            'within [minsma, maxsma], documented sma sequence, fixed parameters exact, accuracy within max(3 x reported error, 10 x '
            'calibrated deviation) on isophotes well-sampled by an input-only rule, build_ellipse_model inside the fitted annulus, image untouched.',
            'Lattice points only (continuum between them not covered); tolerances calibrated on 35 173 isophotes of the pinned tree.',
            'DESIGN.md section 4 C20'),
}

NOT_BUILT_REASON = ('check not built yet (bounded exhaustive design exists in DESIGN.md section 4; '
                    'listed here until its command is registered, so that nothing unverified is claimed)')

ALL = [f'C{n:02d}' for n in range(1, 21)]


def hook_commits():
    return []


ENLARGED = (' The enumerated space was enlarged during the build each time an independently seeded change was missed '
            '(DESIGN.md 9.6 lists every added axis); the RULE text and the coverage block of the evidence file state the '
            'alphabets and bounds of the run that produced it.')


def main():
    checks = []
    for pid in ALL:
        if pid not in CHECKS:
            continue
        cat, tech, text, note, ref = CHECKS[pid]
        checks.append({
            'property_id': pid,
            'quick_cmd': f'./check {pid} --tier quick',
            'thorough_cmd': f'./check {pid} --tier thorough',
            'evidence_file': f'evidence/{pid}.json',
            'replay_cmd_template': f'./check {pid} --replay {{path}}',
            'engine': 'mcphot',
            'level_claimed': {'category': cat, 'text': text + ENLARGED, 'design_ref': ref + '; 9.6 (spaces added by seed waves a-e)'},
            'level_note': note,
            'technique': tech,
        })
    na = [{'property_id': pid, 'reason': NOT_BUILT_REASON} for pid in ALL if pid not in CHECKS]
    doc = {
        'version': 1,
        'setup_cmd': './setup.sh',
        'hooks': {
            'guard': 'PHOTUTILS_VERIF',
            'enable': 'no source hooks are needed: the harness rebinds module-level names from outside '
                      '(executor, as_completed) and imports photutils from the working tree via PYTHONPATH=$VERIF_REPO',
            'baseline_off_cmd': 'cd /repo && /venv/bin/python -m pytest -ra -q -p no:cacheprovider --timeout=900 '
                                '--continue-on-collection-errors',
            'source_commits': hook_commits(),
            'add_only': True,
        },
        'engines': [{
            'name': 'mcphot',
            'path': 'mcphot/',
            'serves_properties': sorted(CHECKS),
            'kind_free_text': 'hand-written bounded exhaustive explorer for Python: explicit-state BFS over histories '
                              'on the real objects (explorer.py), permutation-driven executor for schedules '
                              '(schedules.py), full-product input enumeration inside each property module (props/), reference models (ref/)',
        }],
        'checks': checks,
        'not_applicable': na,
        'notes': 'Exit 0 = held on everything explored (KNOWN-FINDING lines possible), exit 1 = VIOLATION line, '
                 'exit 2 = harness error. VERIF_SEED/VERIF_TIER honoured. VERIF_REPO selects the tree (default /repo).',
    }
    with open(os.path.join(VERIF, 'MANIFEST.json'), 'w') as fh:
        json.dump(doc, fh, indent=1)
    env = {k: v for k, v in os.environ.items() if k != 'PYTHONPATH'}
    r = subprocess.run(['python3-vt', '-c',
                        'import json,jsonschema,sys; jsonschema.validate(json.load(open(sys.argv[1])), json.load(open(sys.argv[2]))); print("MANIFEST valid")',
                        os.path.join(VERIF, 'MANIFEST.json'), os.path.join(VERIF, 'schemas', 'MANIFEST.schema.json')], env=env)
    raise SystemExit(r.returncode)


if __name__ == '__main__':
    main()
