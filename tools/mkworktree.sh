#!/bin/bash
# tools/mkworktree.sh /tmp/wt-name   -> scratch git worktree of /repo HEAD with the (gitignored) build products copied in.
# Use it with:  VERIF_REPO=/tmp/wt-name ./check Cxx --tier quick
set -e
d="$1"; [ -n "$d" ] || { echo "usage: $0 <dir>"; exit 2; }
git -C /repo worktree add --detach -q "$d" "${2:-HEAD}"
cp /repo/photutils/version.py "$d/photutils/" 2>/dev/null || true
cp /repo/photutils/_compiler.c /repo/photutils/compiler_version*.so "$d/photutils/" 2>/dev/null || true
cp /repo/photutils/geometry/*.c /repo/photutils/geometry/*.so "$d/photutils/geometry/"
echo "worktree at $d (HEAD $(git -C "$d" rev-parse --short HEAD))"
