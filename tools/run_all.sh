#!/bin/bash
# tools/run_all.sh [tier] [seeds...]   run every registered check from a fresh process; summary on stdout
cd /verif
tier="${1:-quick}"; shift
seeds="${@:-0}"
ids=$(python3 -c "import json; print(' '.join(c['property_id'] for c in json.load(open('MANIFEST.json'))['checks']))")
for seed in $seeds; do
  for id in $ids; do
    t0=$(date +%s)
    out=$(VERIF_SEED=$seed ./check $id --tier $tier 2>&1); rc=$?
    t1=$(date +%s)
    echo "seed=$seed $id rc=$rc wall=$((t1-t0))s :: $(echo "$out" | tail -1 | cut -c1-200)"
    if [ $rc -ne 0 ]; then echo "$out" | grep -E "VIOLATION|HARNESS|clause=" | head -8; fi
  done
done
