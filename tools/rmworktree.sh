#!/bin/bash
# tools/rmworktree.sh /tmp/wt-name  -> remove the scratch worktree and its build output
d="$1"; [ -n "$d" ] || { echo "usage: $0 <dir>"; exit 2; }
git -C /repo worktree remove --force "$d" 2>/dev/null || rm -rf "$d"
git -C /repo worktree prune
