import numpy as np, itertools, warnings, time
warnings.simplefilter('ignore')
from photutils.segmentation import detect_sources
def ccl(mask, conn):
    ny, nx = mask.shape
    lab = np.zeros((ny, nx), int); cur = 0
    nb = [(-1,0),(1,0),(0,-1),(0,1)] + ([(-1,-1),(-1,1),(1,-1),(1,1)] if conn == 8 else [])
    for y in range(ny):
        for x in range(nx):
            if mask[y, x] and lab[y, x] == 0:
                cur += 1; st = [(y, x)]; lab[y, x] = cur
                while st:
                    a, b = st.pop()
                    for dy, dx in nb:
                        p, q = a + dy, b + dx
                        if 0 <= p < ny and 0 <= q < nx and mask[p, q] and lab[p, q] == 0:
                            lab[p, q] = cur; st.append((p, q))
    return lab
def ref(img, thr, npix, conn):
    lab = ccl(img > thr, conn)
    out = np.zeros_like(lab); k = 0
    for l in range(1, lab.max() + 1):
        m = lab == l
        if m.sum() >= npix: k += 1; out[m] = k
    return out if k else None
bad = 0; n = 0; t0 = time.time()
for shape in [(3, 3), (3, 4), (4, 4)]:
    for bits in itertools.product([0, 1], repeat=shape[0] * shape[1]):
        img = np.array(bits, float).reshape(shape)
        for conn in (4, 8):
            for npix in (1, 2, 3):
                n += 1
                r = ref(img, 0.5, npix, conn)
                s = detect_sources(img, 0.5, npix, connectivity=conn)
                if (r is None) != (s is None) or (r is not None and not np.array_equal(r, s.data)):
                    bad += 1
                    if bad < 4: print(img, conn, npix, r, None if s is None else s.data)
print(n, bad, time.time() - t0)
