import numpy as np, time, warnings
warnings.simplefilter('ignore')
from photutils.segmentation import detect_sources, SegmentationImage, SourceCatalog, deblend_sources
from photutils.detection import find_peaks, DAOStarFinder
from photutils.background import Background2D
from photutils.aperture import CircularAperture, aperture_photometry, ApertureStats
from photutils.psf import CircularGaussianPRF, PSFPhotometry
from photutils.datasets import make_model_image
from photutils.isophote import Ellipse, EllipseGeometry
from astropy.table import Table
def t(f, n=50):
    t0 = time.perf_counter()
    for _ in range(n): f()
    return (time.perf_counter() - t0) / n * 1e3
rng = np.random.default_rng(0)
d = rng.random((3, 3))
print('detect_sources 3x3 ms', t(lambda: detect_sources(d, 0.5, 1), 300))
print('find_peaks 3x3 ms', t(lambda: find_peaks(d, 0.1, box_size=3), 100))
s = np.array([[1,1,0],[0,2,2],[3,0,2]])
print('SegmentationImage+attrs ms', t(lambda: SegmentationImage(s.copy()).areas, 300))
def f():
    c = SourceCatalog(d, SegmentationImage(s.copy()))
    return c.segment_flux, c.centroid, c.semimajor_sigma, c.bbox_xmin, c.min_value, c.maxval_index
print('SourceCatalog small ms', t(f, 50))
def g():
    c = SourceCatalog(d, SegmentationImage(s.copy()))
    return c.to_table()
print('SourceCatalog to_table default ms', t(g, 10))
img = rng.normal(5, 1, (9, 8))
print('Background2D 9x8 ms', t(lambda: Background2D(img, 3).background, 50))
ap = CircularAperture([(2.3, 3.1), (7, 7)], 2.0)
print('aperture_photometry ms', t(lambda: aperture_photometry(img, ap), 50))
print('do_photometry ms', t(lambda: ap.do_photometry(img), 200))
print('ApertureStats ms', t(lambda: ApertureStats(img, ap).to_table(), 10))
psf = CircularGaussianPRF(fwhm=2.5)
truth = Table({'x_0': [10.2, 13.], 'y_0': [10.4, 11.], 'flux': [100., 50.]})
im = make_model_image((25, 25), psf, truth, model_shape=(15, 15))
ph = PSFPhotometry(psf, (5, 5), aperture_radius=4)
init = Table({'x': [10., 13.2], 'y': [10., 11.3], 'flux': [90., 60.], 'group_id': [1, 1]})
print('PSFPhotometry 2 grouped ms', t(lambda: ph(im, init_params=init), 5))
print('make_model_image ms', t(lambda: make_model_image((25, 25), psf, truth, model_shape=(15, 15)), 50))
from astropy.modeling.models import Gaussian2D
yy, xx = np.mgrid[0:80, 0:80]
x = (xx - 40) * np.cos(0.5) + (yy - 40) * np.sin(0.5); y = -(xx - 40) * np.sin(0.5) + (yy - 40) * np.cos(0.5)
gal = 100 * np.exp(-np.sqrt(x**2 + (y / 0.6)**2) / 8)
t0 = time.perf_counter()
iso = Ellipse(gal, EllipseGeometry(40, 40, 10, 0.3, 0.4)).fit_image()
print('Ellipse fit 80x80 s', time.perf_counter() - t0, len(iso))
big = rng.normal(0, 1, (60, 60))
for (x0, y0) in [(15, 15), (40, 20), (30, 45)]:
    big += Gaussian2D(60, x0, y0, 2, 2)(*np.mgrid[0:60, 0:60][::-1])
print('DAOStarFinder 60x60 ms', t(lambda: DAOStarFinder(5, 4.0)(big), 10))
