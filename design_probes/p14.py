import numpy as np, warnings, inspect
warnings.simplefilter('ignore')
from astropy.modeling.models import Gaussian2D
from astropy.coordinates import SkyCoord
import astropy.units as u
from photutils.segmentation import detect_sources, SourceCatalog
from photutils.aperture import CircularAperture, ApertureStats, BoundingBox
rng = np.random.default_rng(2)
yy, xx = np.mgrid[0:50, 0:60]
img = rng.normal(0, 0.3, (50, 60))
for (a, x0, y0, sx, sy, th) in [(80, 15.3, 14.8, 2.5, 1.6, 0.5), (60, 40.1, 20.2, 2.0, 2.0, 0), (50, 28.4, 38.1, 3.0, 1.5, 2.0)]:
    img += Gaussian2D(a, x0, y0, sx, sy, th)(xx, yy)
seg = detect_sources(img, 3.0, 8)
def same(a, b):
    if a is None or b is None: return a is b
    if isinstance(a, BoundingBox): return a == b
    if isinstance(a, (list, tuple)):
        return isinstance(b, (list, tuple, np.ndarray)) and len(a) == len(b) and all(same(x, y) for x, y in zip(a, b))
    if isinstance(a, SkyCoord): return bool(np.all(a == b))
    if hasattr(a, 'to_mask') or hasattr(a, 'positions'): return a == b
    try:
        a1 = np.ma.asarray(a); b1 = np.ma.asarray(b)
        if a1.shape != b1.shape: return False
        if a1.dtype == object: return all(same(x, y) for x, y in zip(a1.ravel(), b1.ravel()))
        ua, ub = getattr(a, 'unit', None), getattr(b, 'unit', None)
        if ua != ub: return False
        return bool(np.array_equal(np.ma.getmaskarray(a1), np.ma.getmaskarray(b1)) and np.allclose(np.ma.filled(a1.astype(float), 0), np.ma.filled(b1.astype(float), 0), rtol=1e-12, atol=0, equal_nan=True))
    except Exception as e:
        return a == b
def index(v, idx):
    if isinstance(v, (list, tuple)):
        if isinstance(idx, (int, np.integer)): return v[idx]
        if isinstance(idx, slice): return list(v[idx])
        idx = np.asarray(idx)
        if idx.dtype == bool: return [x for x, k in zip(v, idx) if k]
        return [v[i] for i in idx]
    return v[idx]
def sweep(make, names, n):
    forms = {'int0': 0, 'int-1': -1, 'npint': np.int64(1), 'slice': slice(0, 2), 'rslice': slice(None, None, -1), 'list': [2, 0], 'bool': np.array([True, False, True]), 'one-list': [1]}
    fails = {}
    for fname, idx in forms.items():
        for when in ('before', 'after'):
            parent = make()
            if when == 'before':
                for p in names:
                    try: getattr(parent, p)
                    except Exception: pass
            try: child = parent[idx]
            except Exception as e: fails[(fname, when, '__getitem__')] = repr(e)[:60]; continue
            for p in names:
                try: pv = getattr(make(), p)
                except Exception as e: continue
                try: cv = getattr(child, p)
                except Exception as e: fails[(fname, when, p)] = 'EXC ' + repr(e)[:70]; continue
                try: exp = index(pv, idx)
                except Exception as e: fails[(fname, when, p)] = 'IDX ' + repr(e)[:50]; continue
                if not same(exp, cv): fails[(fname, when, p)] = 'DIFF'
    return fails
mk = lambda: SourceCatalog(img, seg, error=np.ones_like(img), background=np.zeros_like(img) + 0.1, localbkg_width=4)
names = [p for p in mk().properties]
f = sweep(mk, names, 3)
from collections import Counter
print('SourceCatalog props', len(names), 'fails', len(f))
byp = Counter((k[2], v[:4]) for k, v in f.items()); print(byp.most_common(40))
ap = CircularAperture([(15.3, 14.8), (40.1, 20.2), (28.4, 38.1)], 5.0)
mk2 = lambda: ApertureStats(img, ap, error=np.ones_like(img), local_bkg=[0.1, 0.2, 0.3])
names2 = mk2().properties
f2 = sweep(mk2, names2, 3)
print('ApertureStats props', len(names2), 'fails', len(f2))
byp = Counter((k[2], v[:4]) for k, v in f2.items()); print(byp.most_common(40))
for k, v in list(f.items())[:6] + list(f2.items())[:6]: print(k, v)
