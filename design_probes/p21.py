import numpy as np, warnings, itertools
warnings.simplefilter('ignore')
import astropy.units as u
from astropy.nddata import NDData
from astropy.modeling.models import Gaussian2D
from astropy.table import Table
from photutils.aperture import CircularAperture, aperture_photometry, ApertureStats
from photutils.background import Background2D
from photutils.segmentation import detect_sources, deblend_sources, SourceCatalog, detect_threshold
from photutils.detection import find_peaks, DAOStarFinder, IRAFStarFinder, StarFinder
from photutils.centroids import centroid_com, centroid_quadratic, centroid_1dg, centroid_2dg, centroid_sources
from photutils.profiles import RadialProfile, CurveOfGrowth
from photutils.psf import CircularGaussianPRF, PSFPhotometry
from photutils.utils import calc_total_error
from photutils.morphology import data_properties, gini
from photutils.isophote import Ellipse, EllipseGeometry
yy, xx = np.mgrid[0:41, 0:47]
base = np.zeros((41, 47))
for (a, x0, y0, sx, sy, th) in [(800, 15.0, 14.0, 2.5, 1.6, 0.5), (600, 31.0, 20.0, 2.0, 2.0, 0), (500, 22.0, 31.0, 3.0, 1.5, 2.0)]:
    base += Gaussian2D(a, x0, y0, sx, sy, th)(xx, yy)
rng = np.random.default_rng(0)
base = np.round(base + rng.normal(20, 3, base.shape))   # integer-valued scene
reps = {
 'f8': lambda a: a.astype('<f8'), 'f4': lambda a: a.astype('<f4'), 'i4': lambda a: a.astype('<i4'), 'i8': lambda a: a.astype('<i8'), 'u2': lambda a: a.astype('<u2'),
 'be': lambda a: a.astype('>f8'), 'F': lambda a: np.asfortranarray(a.astype('<f8')), 'strided': lambda a: np.repeat(np.repeat(a.astype('<f8'), 2, 0), 2, 1)[::2, ::2],
 'ma': lambda a: np.ma.MaskedArray(a.astype('<f8')), 'q': lambda a: a.astype('<f8') * u.Jy,
}
ap = CircularAperture([(15., 14.), (31., 20.)], 4.0)
def val(x):
    if x is None: return None
    if isinstance(x, Table): return {c: val(x[c]) for c in x.colnames if c not in ('sky_center',)}
    x = getattr(x, 'value', x)
    try: return np.ma.filled(np.ma.asarray(x).astype(float), np.nan)
    except Exception: return None
kernel = Gaussian2D(1, 3, 3, 1.5, 1.5)(*np.mgrid[0:7, 0:7][::-1])
def thr(d, v): return v * d.unit if hasattr(d, 'unit') else v
entries = {
 'aperture_photometry': lambda d: aperture_photometry(d, ap),
 'ApertureStats.mean': lambda d: ApertureStats(d, ap).mean,
 'ApertureStats.sum': lambda d: ApertureStats(d, ap).sum,
 'Background2D.bkg': lambda d: Background2D(d, (10, 12)).background,
 'Background2D.rms': lambda d: Background2D(d, (10, 12)).background_rms,
 'detect_threshold': lambda d: detect_threshold(d, 2.0),
 'detect_sources': lambda d: detect_sources(d, thr(d, 60.), 5).data,
 'SourceCatalog.flux': lambda d: SourceCatalog(d, detect_sources(base, 60., 5)).segment_flux,
 'SourceCatalog.kron': lambda d: SourceCatalog(d, detect_sources(base, 60., 5)).kron_flux,
 'SourceCatalog.xc': lambda d: SourceCatalog(d, detect_sources(base, 60., 5)).xcentroid,
 'find_peaks': lambda d: find_peaks(d, thr(d, 100.), box_size=5),
 'DAOStarFinder': lambda d: DAOStarFinder(thr(d, 50.), 4.0)(d),
 'IRAFStarFinder': lambda d: IRAFStarFinder(thr(d, 50.), 4.0)(d),
 'StarFinder': lambda d: StarFinder(thr(d, 50.), kernel.copy())(d),
 'centroid_com': lambda d: centroid_com(d[5:25, 5:25] - thr(d, 20.)),
 'centroid_quadratic': lambda d: centroid_quadratic(d[5:25, 5:25]),
 'centroid_1dg': lambda d: centroid_1dg(d[5:25, 5:25] - thr(d, 20.)),
 'centroid_2dg': lambda d: centroid_2dg(d[5:25, 5:25] - thr(d, 20.)),
 'centroid_sources': lambda d: np.array(centroid_sources(d, [15, 31], [14, 20], box_size=9)),
 'RadialProfile': lambda d: RadialProfile(d, (15, 14), np.arange(0, 8)).profile,
 'CurveOfGrowth': lambda d: CurveOfGrowth(d, (15, 14), np.arange(1, 8)).profile,
 'calc_total_error': lambda d: calc_total_error(d, thr(d, 3.0) if hasattr(d, 'unit') else 3.0, 2.0 * u.electron / u.Jy if hasattr(d, 'unit') else 2.0),
 'data_properties.xc': lambda d: data_properties(d[5:25, 5:25]).xcentroid,
 'gini': lambda d: gini(d),
 'PSFPhotometry': lambda d: PSFPhotometry(CircularGaussianPRF(fwhm=4.5), (7, 7), aperture_radius=4)(d, init_params=Table({'x': [15., 31.], 'y': [14., 20.]}))['x_fit', 'y_fit', 'flux_fit'],
}
def close(a, b, rep):
    rtol = 2e-4 if rep == 'f4' else 1e-9
    if isinstance(a, dict):
        return isinstance(b, dict) and a.keys() == b.keys() and all(close(a[k], b[k], rep) for k in a)
    if a is None or b is None: return a is b
    return a.shape == b.shape and np.allclose(a, b, rtol=rtol, atol=rtol * 1e3 if rep == 'f4' else 1e-9, equal_nan=True)
res = {}
for en, f in entries.items():
    try: basev = val(f(reps['f8'](base)))
    except Exception as e: print('BASE FAIL', en, repr(e)[:80]); continue
    for rn, r in reps.items():
        if rn == 'f8': continue
        try: v = val(f(r(base)))
        except Exception as e: res[(en, rn)] = 'EXC ' + type(e).__name__ + ': ' + str(e)[:70]; continue
        if not close(basev, v, rn): res[(en, rn)] = 'DIFF'
for k, v in res.items(): print(k, v)
print(len(entries) * (len(reps) - 1), 'checked;', len(res), 'deviations')
