import numpy as np, warnings, itertools, math, time
warnings.simplefilter('ignore')
from photutils.aperture import CircularAperture, EllipticalAperture, RectangularAperture, CircularAnnulus, EllipticalAnnulus, RectangularAnnulus, BoundingBox
bad = {}
def rec(k, *a): bad.setdefault(k, []).append(a)
t0 = time.time()
def inside(kind, X, Y, p):
    if kind == 'c': return X**2 + Y**2, p['r']**2, None
    c, s = math.cos(p['theta']), math.sin(p['theta'])
    xr = X * c + Y * s; yr = -X * s + Y * c
    if kind == 'e': return (xr / p['a'])**2 + (yr / p['b'])**2, 1.0, None
    if kind == 'r': return np.maximum(np.abs(xr) / (p['w'] / 2), np.abs(yr) / (p['h'] / 2)), 1.0, None
def refmask(kind, p, cx, cy, bbox, s):
    ny, nx = bbox.shape
    off = (np.arange(s) + 0.5) / s - 0.5
    xs = (bbox.ixmin + np.arange(nx))[:, None] + off[None, :]   # (nx, s)
    ys = (bbox.iymin + np.arange(ny))[:, None] + off[None, :]
    X = xs.reshape(-1)[None, :] - cx; Y = ys.reshape(-1)[:, None] - cy
    v, lim, _ = inside(kind, X, Y, p)
    ins = (v < lim); amb = np.abs(v - lim) < 1e-12
    ins = ins.reshape(ny, s, nx, s).sum(axis=(1, 3)) / s**2
    amb = amb.reshape(ny, s, nx, s).sum(axis=(1, 3)) / s**2
    return ins, amb
fr = [0, 0.5, 0.25, 1/3, 0.137]
n = 0
for fx, fy in itertools.product(fr, fr):
    cx, cy = 3 + fx, -2 + fy
    cases = []
    for r in [0.03, 0.3, 0.5, math.sqrt(0.5), 1.0, math.sqrt(2.5), 1.5, 2.0, math.sqrt(5), 2.5, 3.3, 5.0]:
        cases.append(('c', dict(r=r), CircularAperture((cx, cy), r)))
    for a, q, th in itertools.product([0.3, 1.0, 2.5, 5.0], [1.0, 0.5, 0.1], [0, math.pi / 8, math.pi / 4, math.pi / 2, 1.0, 2.5]):
        cases.append(('e', dict(a=a, b=a * q, theta=th), EllipticalAperture((cx, cy), a, a * q, theta=th)))
    for w, h, th in itertools.product([0.4, 1.0, 2.0, 3.5], [0.4, 1.0, 3.0], [0, math.pi / 8, math.pi / 4, math.pi / 2, 1.0]):
        cases.append(('r', dict(w=w, h=h, theta=th), RectangularAperture((cx, cy), w, h, theta=th)))
    for kind, p, ap in cases:
        bb = ap.bbox
        for method, s in [('center', 1), ('subpixel', 1), ('subpixel', 2), ('subpixel', 3), ('subpixel', 5)] + ([('exact', 32)] if kind == 'r' else []):
            n += 1
            m = ap.to_mask(method=method, subpixels=s)
            ref, amb = refmask(kind, p, cx, cy, bb, s)
            if not np.all(np.abs(m.data - ref) <= amb + 1e-12): rec('subpix', kind, p, (fx, fy), method, s, float(np.abs(m.data - ref).max()))
        # bbox contains & minimal, via extents
        if kind == 'c': ex = ey = p['r']
        elif kind == 'e':
            c, s_ = math.cos(p['theta']), math.sin(p['theta']); ex = math.hypot(p['a'] * c, p['b'] * s_); ey = math.hypot(p['a'] * s_, p['b'] * c)
        else:
            c, s_ = abs(math.cos(p['theta'])), abs(math.sin(p['theta'])); ex = (p['w'] * c + p['h'] * s_) / 2; ey = (p['w'] * s_ + p['h'] * c) / 2
        for lo, hi, imin, imax, nm in [(cx - ex, cx + ex, bb.ixmin, bb.ixmax, 'x'), (cy - ey, cy + ey, bb.iymin, bb.iymax, 'y')]:
            tol = 1e-9
            if not (imin - 0.5 <= lo + tol and hi - tol <= imax - 0.5): rec('bbox-contains', kind, p, (fx, fy), nm, lo, hi, imin, imax)
            if not (lo < imin + 0.5 + tol and hi > imax - 1.5 - tol): rec('bbox-minimal', kind, p, (fx, fy), nm, lo, hi, imin, imax)
print('masks', n, {k: len(v) for k, v in bad.items()}, round(time.time() - t0, 1))
for k, v in bad.items(): print(k, v[:2])
# overlap slices exhaustive
bad2 = 0; n2 = 0
for ixmin, iymin, w, h, ny, nx in itertools.product(range(-6, 7), range(-6, 7), range(1, 5), range(1, 5), range(1, 6), range(1, 6)):
    n2 += 1
    bb = BoundingBox(ixmin, ixmin + w, iymin, iymin + h)
    sl, ss = bb.get_overlap_slices((ny, nx))
    box = {(y, x) for y in range(iymin, iymin + h) for x in range(ixmin, ixmin + w)}
    im = {(y, x) for y in range(ny) for x in range(nx)}
    common = box & im
    if not common:
        if sl is not None: bad2 += 1
        continue
    if sl is None: bad2 += 1; continue
    L = {(y, x) for y in range(*sl[0].indices(ny)) for x in range(*sl[1].indices(nx))}
    S = {(y + iymin, x + ixmin) for y in range(*ss[0].indices(h)) for x in range(*ss[1].indices(w))}
    if L != common or S != common: bad2 += 1
print('slices', n2, bad2)
