import numpy as np, warnings, itertools
warnings.simplefilter('ignore')
from photutils.background import Background2D, MedianBackground, BkgIDWInterpolator, BkgZoomInterpolator
rng = np.random.default_rng(3)
bad = 0; n = 0
for (ny, nx), (by, bx), em, interp in itertools.product([(6, 6), (7, 9), (5, 8), (9, 4)], [(2, 2), (3, 3), (2, 3), (4, 5), (0, 0)], ['pad', 'crop'], ['zoom', 'idw']):
    if (by, bx) == (0, 0): by, bx = ny, nx
    if by > ny or bx > nx: continue
    img = rng.normal(10, 2, (ny, nx))
    mask = np.zeros((ny, nx), bool); mask[0, 0] = True; mask[ny // 2, nx // 2] = True
    cov = np.zeros((ny, nx), bool); cov[-1, :] = True
    for m, c, ep in itertools.product([None, mask], [None, cov], [0, 10, 100]):
        n += 1
        kw = dict(mask=m, coverage_mask=c, exclude_percentile=ep, edge_method=em, fill_value=-7.0,
                  interpolator=BkgIDWInterpolator() if interp == 'idw' else BkgZoomInterpolator())
        try:
            b = Background2D(img, (by, bx), **kw)
            bk = b.background; br = b.background_rms
        except ValueError as e:
            if 'All boxes' in str(e) or 'good pixels' in str(e): continue
            print('VALUEERR', (ny, nx), (by, bx), em, interp, m is not None, c is not None, ep, e); bad += 1; continue
        except Exception as e:
            print('EXC', (ny, nx), (by, bx), em, interp, m is not None, c is not None, ep, type(e).__name__, e); bad += 1; continue
        ok = bk.shape == img.shape and np.all(np.isfinite(bk)) and np.all(np.isfinite(br))
        if c is not None: ok &= np.all(bk[c] == -7.0) and np.all(br[c] == -7.0)
        # mask blindness
        img2 = img.copy()
        if m is not None: img2[m] = 1e9
        if c is not None: img2[c] = -1e9
        b2 = Background2D(img2, (by, bx), **kw)
        ok2 = np.array_equal(b2.background, bk) and np.array_equal(b2.background_rms, br)
        # constant
        b3 = Background2D(np.full((ny, nx), 3.5), (by, bx), **kw)
        k = np.ones((ny, nx), bool) if c is None else ~c
        ok3 = np.all(b3.background[k] == 3.5) and np.all(b3.background_rms[k] == 0)
        # range
        ok4 = True
        if interp == 'zoom':
            mesh = b.background_mesh
            ok4 = bk[k].min() >= mesh.min() - 1e-12 and bk[k].max() <= mesh.max() + 1e-12
        if not (ok and ok2 and ok3 and ok4):
            bad += 1; print('FAIL', (ny, nx), (by, bx), em, interp, m is not None, c is not None, ep, ok, ok2, ok3, ok4)
print(n, bad)
