import numpy as np, warnings, traceback
warnings.simplefilter('ignore')
from photutils.segmentation import SegmentationImage, SourceCatalog, detect_sources, deblend_sources
from photutils.aperture import CircularAperture, ApertureStats, aperture_photometry, EllipticalAperture, RectangularAperture
from photutils.profiles import CurveOfGrowth
from photutils.detection import find_peaks
from photutils.datasets import make_model_image
from photutils.psf import CircularGaussianPRF, PSFPhotometry, SourceGrouper
from astropy.table import Table
def section(s): print('\n==', s)
rng = np.random.default_rng(1)

section('C16 sum_aper_area when center mask empty')
data = rng.random((9, 9))
ap = CircularAperture((3.5, 3.5), 0.3)
st = ApertureStats(data, ap)
print('sum', st.sum, 'area', st.sum_aper_area, 'phot', aperture_photometry(data, ap)['aperture_sum'][0], 'overlap', ap.area_overlap(data))

section('C05 deblend map after removing child')
from astropy.modeling.models import Gaussian2D
yy, xx = np.mgrid[0:40, 0:60]
img = Gaussian2D(50, 20, 20, 3, 3)(xx, yy) + Gaussian2D(40, 30, 20, 3, 3)(xx, yy) + Gaussian2D(30, 50, 8, 2, 2)(xx, yy)
segm = detect_sources(img, 1.0, 5)
print('labels', segm.labels)
deb = deblend_sources(img, segm, 5, nlevels=16, contrast=0.001, progress_bar=False)
print('deb labels', deb.labels, deb.deblended_labels, deb.deblended_labels_inverse_map, deb.deblended_labels_map)
d2 = deb.copy()
d2.remove_label(int(deb.deblended_labels[0]))
print('after remove child:', d2.labels, d2.deblended_labels, d2.deblended_labels_inverse_map)
d3 = deb.copy(); _ = d3.deblended_labels; 
d3.relabel_consecutive(start_label=10)
print('after relabel 10:', d3.labels, d3.deblended_labels, d3.deblended_labels_map, d3.deblended_labels_inverse_map)

section('C03 background_centroid transposition')
data = rng.random((10, 16)); bkg = np.add.outer(np.arange(10.), 100 * np.arange(16.))
seg = np.zeros((10, 16), int); seg[2:5, 9:13] = 1
c = SourceCatalog(data, SegmentationImage(seg), background=bkg)
print('centroid', c.xcentroid, c.ycentroid, 'bkg_centroid', c.background_centroid, 'expected ~', c.ycentroid[0] + 100 * c.xcentroid[0])

section('C12 _make_mask nonfinite with user mask')
psf = CircularGaussianPRF(fwhm=2.5)
truth = Table({'x_0': [10.2], 'y_0': [10.4], 'flux': [100.]})
img = make_model_image((21, 21), psf, truth, model_shape=(15, 15))
img2 = img.copy(); img2[11, 11] = np.nan
mask = np.zeros(img.shape, bool); mask[0, 0] = True
ph = PSFPhotometry(psf, (7, 7), aperture_radius=4)
init = Table({'x': [10.], 'y': [10.], 'flux': [90.]})
print('no mask  :', ph(img2, init_params=init)['x_fit', 'y_fit', 'flux_fit', 'npixfit', 'flags'])
print('with mask:', ph(img2, mask=mask, init_params=init)['x_fit', 'y_fit', 'flux_fit', 'npixfit', 'flags'])

section('C14 find_peaks negative near border')
d = -np.ones((7, 7)) * 5; d[0, 0] = -1; d[3, 3] = -2
print(find_peaks(d, -10, box_size=3))

section('C19 calc_radius_at_ee')
yy, xx = np.mgrid[0:41, 0:41]
img = Gaussian2D(1, 20, 20, 3, 3)(xx, yy)
img[np.hypot(xx - 20, yy - 20) > 8] = -0.01
cog = CurveOfGrowth(img, (20, 20), np.arange(1, 15))
prof = cog.profile
mono = np.diff(prof) > 0
print('profile diffs>0:', mono)
for r in cog.radius[:10]:
    ee = cog.calc_ee_at_radius(r); print(r, float(ee), float(cog.calc_radius_at_ee(ee)))

section('C02 int mask')
data = rng.random((9, 9)); m = np.zeros((9, 9), int); m[4, 4] = 1
ap = CircularAperture((4, 4), 2.)
try:
    print(ap.area_overlap(data, mask=m), ap.area_overlap(data, mask=m.astype(bool)))
except Exception as e: print('ERR', e)
try:
    print(ap.do_photometry(data, mask=m)[0], ap.do_photometry(data, mask=m.astype(bool))[0])
except Exception as e: print('ERR', type(e).__name__, e)
