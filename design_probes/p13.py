import numpy as np, itertools, warnings, time
warnings.simplefilter('ignore')
from astropy.table import Table
from photutils.psf import CircularGaussianPRF, PSFPhotometry, IterativePSFPhotometry, SourceGrouper
from photutils.datasets import make_model_image
def partitions(n):
    if n == 0: yield []; return
    for p in partitions(n - 1):
        for i in range(len(p)): yield p[:i] + [p[i] + [n - 1]] + p[i + 1:]
        yield p + [[n - 1]]
psf = CircularGaussianPRF(fwhm=2.7)
truth = [(12.3, 11.6, 100.), (14.4, 12.2, 37.), (22.7, 9.1, 250.), (13.1, 14.0, 60.)]
worst = 0; n = 0; t0 = time.time(); bad = 0
for N in (2, 3, 4):
    tr = truth[:N]
    tt = Table({'x_0': [t[0] for t in tr], 'y_0': [t[1] for t in tr], 'flux': [t[2] for t in tr]})
    img = make_model_image((27, 33), psf, tt, model_shape=(21, 21))
    for perm in itertools.permutations(range(N)):
        for part in partitions(N):
            gid = np.zeros(N, int)
            for g, blk in enumerate(part): gid[blk] = g + 1
            rows = [tr[i] for i in perm]
            init = Table({'x': [r[0] + 0.3 for r in rows], 'y': [r[1] - 0.25 for r in rows], 'flux': [r[2] * 0.8 for r in rows], 'group_id': gid[list(perm)]})
            ph = PSFPhotometry(psf, (7, 7), aperture_radius=4)
            res = ph(img, init_params=init); n += 1
            e = max(np.abs(res['x_fit'] - [r[0] for r in rows]).max(), np.abs(res['y_fit'] - [r[1] for r in rows]).max(), (np.abs(res['flux_fit'] - [r[2] for r in rows]) / [r[2] for r in rows]).max())
            # sources fitted separately while overlapping are NOT expected to be exact
            sizes = {g: list(gid[list(perm)]).count(g) for g in gid}
            ok_ids = list(res['id']) == list(range(1, N + 1)) and list(res['group_id']) == list(gid[list(perm)]) and list(res['group_size']) == [sizes[g] for g in gid[list(perm)]]
            if not ok_ids: bad += 1; print('BOOK', perm, part)
            full = len(part) == 1 or all(len(b) == 1 for b in part) and False
            if len(part) == 1: worst = max(worst, e)
print(n, 'bookkeeping bad', bad, 'worst err (single group)', worst, time.time() - t0)
