import numpy as np, warnings, itertools, time
warnings.simplefilter('ignore')
from astropy.stats import SigmaClip, mad_std, biweight_location, biweight_midvariance
from photutils.aperture import CircularAperture, EllipticalAperture, RectangularAperture, CircularAnnulus, ApertureStats, aperture_photometry
rng = np.random.default_rng(7)
img = rng.normal(5, 2, (7, 8)); img[2, 3] = 40.0
img_nan = img.copy(); img_nan[3, 4] = np.nan; img_nan[0, 0] = np.inf
err = rng.random((7, 8)) + 0.5
mask1 = np.zeros((7, 8), bool); mask1[3, 3] = True
bad = {}; n = 0
pos = [(3.2, 2.9), (3.5, 3.5), (0.2, 6.4), (7.6, 3.0), (-5, -5), (4.0, 3.0)]
apers = {'c0.3': lambda p: CircularAperture(p, 0.3), 'c1.5': lambda p: CircularAperture(p, 1.5), 'c3': lambda p: CircularAperture(p, 3.0),
         'e': lambda p: EllipticalAperture(p, 2.5, 1.2, theta=0.6), 'r': lambda p: RectangularAperture(p, 3.0, 2.0, theta=0.3), 'ann': lambda p: CircularAnnulus(p, 1.0, 2.6)}
for an, d, m, sc, sm, lb in itertools.product(apers, (img, img_nan), (None, mask1), (None, SigmaClip(3.0, maxiters=1), SigmaClip(1.5, maxiters=5)), ('exact', 'center', 'subpixel'), (None, 0.7, 'per')):
    ap = apers[an](pos)
    lbv = None if lb is None else (lb if lb != 'per' else np.arange(len(pos)) * 0.1)
    n += 1
    try:
        st = ApertureStats(d, ap, error=err, mask=m, sigma_clip=sc, sum_method=sm, local_bkg=lbv)
        tb = {k: np.atleast_1d(getattr(st, k)) for k in ('sum', 'sum_err', 'sum_aper_area', 'min', 'max', 'mean', 'median', 'std', 'var', 'mad_std', 'biweight_location', 'biweight_midvariance', 'xcentroid', 'ycentroid', 'center_aper_area')}
    except Exception as e:
        bad.setdefault('EXC ' + type(e).__name__, []).append((an, sm, lb, str(e)[:60])); continue
    lbs = np.broadcast_to(0.0 if lbv is None else lbv, len(pos))
    for i, p in enumerate(pos):
        a1 = apers[an](p)
        def chk(name, got, exp, tol=1e-10):
            got = getattr(got, 'value', got); 
            if not ((np.isnan(got) and np.isnan(exp)) or np.isclose(got, exp, rtol=tol, atol=tol)):
                bad.setdefault(name, []).append((an, d is img_nan, m is not None, sc is not None and sc.sigma, sm, lb, i, got, exp))
        dd = d - lbs[i]
        base = ~np.isfinite(d) | (m if m is not None else False)
        def pixset(method):
            mk = a1.to_mask(method=method, subpixels=5)
            w = mk.to_image(d.shape)
            if w is None: return None, None
            sel = (w > 0) & ~base
            if sc is not None and sel.any():
                clipped = sc(np.ma.masked_array(dd, ~sel))
                sel = sel & ~np.ma.getmaskarray(clipped)
            return w, sel
        w, sel = pixset('center')
        if w is None or not sel.any():
            for k in ('min', 'max', 'mean', 'median', 'std'): chk(k, tb[k][i], np.nan)
        else:
            v = dd[sel]
            chk('min', tb['min'][i], v.min()); chk('max', tb['max'][i], v.max()); chk('mean', tb['mean'][i], v.mean()); chk('median', tb['median'][i], np.median(v))
            chk('std', tb['std'][i], v.std()); chk('var', tb['var'][i], v.var()); chk('mad_std', tb['mad_std'][i], mad_std(v)); chk('biloc', tb['biweight_location'][i], biweight_location(v))
            chk('center_area', tb['center_aper_area'][i], sel.sum())
            gy, gx = np.indices(d.shape)
            if v.sum() != 0:
                chk('xc', tb['xcentroid'][i], (gx[sel] * v).sum() / v.sum(), 1e-8); chk('yc', tb['ycentroid'][i], (gy[sel] * v).sum() / v.sum(), 1e-8)
        w, sel = pixset(sm)
        if w is None or not sel.any():
            chk('sum', tb['sum'][i], np.nan); chk('area', tb['sum_aper_area'][i], np.nan)
        else:
            chk('sum', tb['sum'][i], (w * dd)[sel].sum()); chk('sum_err', tb['sum_err'][i], np.sqrt((w * err**2)[sel].sum())); chk('area', tb['sum_aper_area'][i], w[sel].sum())
print(n, {k: len(v) for k, v in bad.items()})
for k, v in bad.items(): print(k, v[:2])
