import numpy as np, warnings, itertools, time
warnings.simplefilter('ignore')
from photutils.segmentation import SegmentationImage, SourceCatalog
rng = np.random.default_rng(4)
data = rng.normal(1.0, 2.0, (5, 5)); err = rng.random((5, 5)) + 0.5; bkg = rng.random((5, 5))
conv = np.abs(data) + rng.random((5, 5))
maskv = {'none': None, 'one': np.zeros((5, 5), bool), 'checker': (np.indices((5, 5)).sum(0) % 2).astype(bool)}
maskv['one'][2, 2] = True
data_nan = data.copy(); data_nan[1, 2] = np.nan
bad = {}; n = 0; t0 = time.time()
for vals in itertools.product([0, 1, 2], repeat=9):
    if not any(vals): continue
    seg = np.zeros((5, 5), int); seg[1:4, 1:4] = np.array(vals).reshape(3, 3)
    for mname, d in itertools.product(maskv, (data, data_nan)):
        n += 1
        m = maskv[mname]
        cat = SourceCatalog(d, SegmentationImage(seg.copy()), error=err, background=bkg, mask=m, convolved_data=conv)
        labs = cat.labels
        flux = np.atleast_1d(cat.segment_flux); ferr = np.atleast_1d(cat.segment_fluxerr); area = np.atleast_1d(cat.area.value)
        xc = np.atleast_1d(cat.xcentroid); yc = np.atleast_1d(cat.ycentroid); bs = np.atleast_1d(cat.background_sum)
        mn = np.atleast_1d(cat.min_value); mxi = np.atleast_2d(cat.maxval_index)
        for i, l in enumerate(labs):
            P = (seg == l) & np.isfinite(d)
            if m is not None: P &= ~m
            def chk(name, got, exp):
                if not (np.isnan(got) and np.isnan(exp)) and not np.isclose(got, exp, rtol=1e-12, atol=1e-12):
                    bad.setdefault(name, []).append((vals, mname, l, got, exp))
            if P.sum() == 0:
                chk('flux', flux[i], np.nan); chk('area', area[i], np.nan); continue
            chk('flux', flux[i], d[P].sum()); chk('ferr', ferr[i], np.sqrt((err[P]**2).sum())); chk('area', area[i], P.sum())
            chk('bsum', bs[i], bkg[P].sum()); chk('min', mn[i], d[P].min())
            ys, xs = np.nonzero(P); k = np.argmax(d[P]); chk('maxy', mxi[i][0], ys[k]); chk('maxx', mxi[i][1], xs[k])
            W = np.where((seg == l) & np.isfinite(conv) & (conv >= 0) & (~m if m is not None else True), conv, 0.0)
            if W.sum() > 0:
                gy, gx = np.indices(W.shape); chk('xc', xc[i], (gx * W).sum() / W.sum()); chk('yc', yc[i], (gy * W).sum() / W.sum())
print(n, {k: len(v) for k, v in bad.items()}, time.time() - t0)
for k, v in bad.items(): print(k, v[0])
