import numpy as np, warnings, itertools, copy, pickle
warnings.simplefilter('ignore')
import astropy.units as u
from astropy.nddata import NDData, StdDevUncertainty
from astropy.modeling.models import Gaussian2D
from astropy.table import Table, QTable
from astropy.stats import SigmaClip
from photutils.aperture import CircularAperture, CircularAnnulus, aperture_photometry, ApertureStats
from photutils.background import Background2D, LocalBackground
from photutils.segmentation import detect_sources, deblend_sources, SourceCatalog, detect_threshold, SegmentationImage, SourceFinder
from photutils.detection import find_peaks, DAOStarFinder, IRAFStarFinder, StarFinder
from photutils.centroids import centroid_com, centroid_quadratic, centroid_1dg, centroid_2dg, centroid_sources
from photutils.profiles import RadialProfile, CurveOfGrowth
from photutils.psf import CircularGaussianPRF, PSFPhotometry, IterativePSFPhotometry, SourceGrouper, ImagePSF, fit_fwhm, fit_2dgaussian
from photutils.utils import calc_total_error, ShepardIDWInterpolator
from photutils.morphology import data_properties, gini
from photutils.isophote import Ellipse, EllipseGeometry, build_ellipse_model
from photutils.datasets import make_model_image, apply_poisson_noise
yy, xx = np.mgrid[0:41, 0:47]
def scene(cond):
    rng = np.random.default_rng(0)
    d = rng.normal(2, 3, (41, 47))
    for (a, x0, y0, sx, sy, th) in [(800, 15.0, 14.0, 2.5, 1.6, 0.5), (600, 31.0, 20.0, 2.0, 2.0, 0), (500, 22.0, 31.0, 3.0, 1.5, 2.0)]:
        d += Gaussian2D(a, x0, y0, sx, sy, th)(xx, yy)
    if cond == 'nan': d[14, 16] = np.nan; d[3, 3] = np.inf; d[30, 21] = np.nan
    return d
def snap(o):
    if isinstance(o, np.ma.MaskedArray): return ('ma', o.dtype.str, o.data.tobytes(), np.ma.getmaskarray(o).tobytes(), repr(o.fill_value))
    if isinstance(o, u.Quantity): return ('q', str(o.unit), o.dtype.str, o.value.tobytes())
    if isinstance(o, np.ndarray): return ('a', o.dtype.str, o.shape, o.tobytes())
    if isinstance(o, Table): return ('t', tuple(o.colnames), tuple(snap(np.asarray(o[c])) for c in o.colnames))
    if isinstance(o, SegmentationImage): return ('s', snap(o.data), repr(o._deblend_label_map))
    if isinstance(o, NDData): return ('n', snap(o.data), snap(o.mask) if o.mask is not None else None, None if o.uncertainty is None else snap(o.uncertainty.array))
    if hasattr(o, 'parameters') and hasattr(o, 'param_names'): return ('m', tuple(o.param_names), o.parameters.tobytes(), repr(o.fixed), repr(o.bounds), snap(o.data) if hasattr(o, 'data') and isinstance(getattr(o, 'data'), np.ndarray) else None)
    if hasattr(o, 'positions'): return ('ap', repr(o))
    return ('x', repr(o)[:200])
reprs = {'nd': lambda a: a.copy(), 'ma': lambda a: np.ma.MaskedArray(a.copy(), mask=np.zeros(a.shape, bool)), 'view': lambda a: np.pad(a, 3)[3:-3, 3:-3]}
results = {}
def run(name, build):
    for cond, rn in itertools.product(('clean', 'nan'), reprs):
        d = reprs[rn](scene(cond))
        mask = np.zeros(d.shape, bool); mask[20, 20] = True
        err = np.abs(scene('clean')) ** 0.5 + 1
        args, call = build(d, mask, err)
        before = {k: snap(v) for k, v in args.items()}
        try: call()
        except Exception as e: status = 'raised ' + type(e).__name__
        else: status = 'ok'
        changed = [k for k, v in args.items() if snap(v) != before[k]]
        if changed: results[(name, cond, rn)] = (changed, status)
def allprops(obj, skip=()):
    for p in getattr(obj, 'properties', []):
        if p in skip: continue
        try: getattr(obj, p)
        except Exception: pass
kern = Gaussian2D(1, 3, 3, 1.5, 1.5)(*np.mgrid[0:7, 0:7][::-1])
psf = CircularGaussianPRF(fwhm=4.5)
ap = CircularAperture([(15., 14.), (31., 20.), (1., 1.)], 4.0)
seg0 = detect_sources(scene('clean'), 60., 5)
E = {
 'Background2D': lambda d, m, e: (dict(d=d, m=m), lambda: [getattr(Background2D(d, (10, 12), mask=m, coverage_mask=None), a) for a in ('background', 'background_rms', 'background_mesh')]),
 'Background2D box=img': lambda d, m, e: (dict(d=d, m=m), lambda: Background2D(d, d.shape, mask=m).background),
 'aperture_photometry': lambda d, m, e: (dict(d=d, m=m, e=e, ap=ap), lambda: aperture_photometry(d, ap, error=e, mask=m)),
 'area_overlap': lambda d, m, e: (dict(d=d, m=m, ap=ap), lambda: ap.area_overlap(d, mask=m)),
 'ApertureStats': lambda d, m, e: (dict(d=d, m=m, e=e, ap=ap), lambda: allprops(ApertureStats(d, ap, error=e, mask=m, sigma_clip=SigmaClip(3)))),
 'detect_threshold': lambda d, m, e: (dict(d=d, m=m), lambda: detect_threshold(d, 2.0, mask=m)),
 'detect_sources': lambda d, m, e: (dict(d=d, m=m), lambda: detect_sources(d, 60., 5, mask=m)),
 'deblend_sources': lambda d, m, e: (dict(d=d, s=seg0), lambda: deblend_sources(np.asarray(d), seg0, 5, progress_bar=False, nproc=1)),
 'SourceFinder': lambda d, m, e: (dict(d=d, m=m), lambda: SourceFinder(5, progress_bar=False)(d, 60., mask=m)),
 'SourceCatalog': lambda d, m, e: (dict(d=d, m=m, e=e, s=seg0), lambda: allprops(SourceCatalog(d, seg0, error=e, mask=m, background=e, localbkg_width=5))),
 'SourceCatalog.methods': lambda d, m, e: (dict(d=d, m=m, e=e, s=seg0), lambda: [f() for f in (lambda: SourceCatalog(d, seg0, error=e, mask=m).circular_photometry(3.0), lambda: SourceCatalog(d, seg0, error=e, mask=m).kron_photometry((2.5, 1.4)), lambda: SourceCatalog(d, seg0, error=e, mask=m).fluxfrac_radius(0.5), lambda: SourceCatalog(d, seg0, mask=m).make_cutouts((9, 9)))]),
 'find_peaks': lambda d, m, e: (dict(d=d, m=m, e=e), lambda: find_peaks(d, 100., box_size=5, mask=m, error=e, centroid_func=centroid_com)),
 'DAOStarFinder': lambda d, m, e: (dict(d=d, m=m), lambda: DAOStarFinder(50., 4.0)(d, mask=m)),
 'IRAFStarFinder': lambda d, m, e: (dict(d=d, m=m), lambda: IRAFStarFinder(50., 4.0)(d, mask=m)),
 'StarFinder': lambda d, m, e: (lambda k: (dict(d=d, m=m, k=k), lambda: StarFinder(50., k)(d, mask=m)))(kern.copy()),
 'centroid_com': lambda d, m, e: (dict(d=d, m=m), lambda: centroid_com(d[5:25, 5:25], mask=m[5:25, 5:25])),
 'centroid_quadratic': lambda d, m, e: (dict(d=d, m=m), lambda: centroid_quadratic(d[5:25, 5:25], mask=m[5:25, 5:25])),
 'centroid_1dg': lambda d, m, e: (dict(d=d, m=m, e=e), lambda: centroid_1dg(d[5:25, 5:25], mask=m[5:25, 5:25], error=e[5:25, 5:25])),
 'centroid_2dg': lambda d, m, e: (dict(d=d, m=m, e=e), lambda: centroid_2dg(d[5:25, 5:25], mask=m[5:25, 5:25], error=e[5:25, 5:25])),
 'centroid_sources': lambda d, m, e: (dict(d=d, m=m, e=e), lambda: centroid_sources(d, [15, 31], [14, 20], box_size=9, mask=m, error=e, centroid_func=centroid_2dg)),
 'RadialProfile': lambda d, m, e: (dict(d=d, m=m, e=e), lambda: [getattr(RadialProfile(d, (15, 14), np.arange(0, 8), error=e, mask=m), a) for a in ('profile', 'profile_error', 'data_profile', 'gaussian_fwhm')]),
 'CurveOfGrowth': lambda d, m, e: (dict(d=d, m=m, e=e), lambda: CurveOfGrowth(d, (15, 14), np.arange(1, 8), error=e, mask=m).profile),
 'calc_total_error': lambda d, m, e: (dict(d=d, e=e), lambda: calc_total_error(d, e, 2.0)),
 'data_properties': lambda d, m, e: (dict(d=d, m=m), lambda: allprops(data_properties(d[5:25, 5:25], mask=m[5:25, 5:25]))),
 'gini': lambda d, m, e: (dict(d=d, m=m), lambda: gini(d, mask=m)),
 'LocalBackground': lambda d, m, e: (dict(d=d, m=m), lambda: LocalBackground(5, 8)(d, [15, 31], [14, 20], mask=m)),
 'PSFPhotometry': lambda d, m, e: (lambda t, p: (dict(d=d, m=m, e=e, t=t, p=p), lambda: (lambda ph: (ph(d, mask=m, error=e, init_params=t), ph.make_model_image(d.shape), ph.make_residual_image(d)))(PSFPhotometry(p, (7, 7), aperture_radius=4, grouper=SourceGrouper(5), localbkg_estimator=LocalBackground(5, 8)))))(Table({'x': [15., 31.], 'y': [14., 20.]}), CircularGaussianPRF(fwhm=4.5)),
 'IterativePSF': lambda d, m, e: (lambda t, p: (dict(d=d, m=m, e=e, t=t, p=p), lambda: IterativePSFPhotometry(p, (7, 7), finder=DAOStarFinder(50., 4.0), aperture_radius=4, maxiters=2)(d, mask=m, error=e, init_params=t)))(Table({'x': [15., 31.], 'y': [14., 20.]}), CircularGaussianPRF(fwhm=4.5)),
 'fit_fwhm': lambda d, m, e: (dict(d=d, m=m, e=e), lambda: fit_fwhm(d, xypos=[(15, 14), (31, 20)], fit_shape=7, mask=m, error=e)),
 'Ellipse': lambda d, m, e: (dict(d=d), lambda: Ellipse(d, EllipseGeometry(31, 20, 4, 0.1, 0.1)).fit_image(maxsma=10)),
 'make_model_image': lambda d, m, e: (lambda t, p: (dict(t=t, p=p), lambda: make_model_image((41, 47), p, t, model_shape=(9, 9))))(Table({'x_0': [15., 31.], 'y_0': [14., 20.], 'flux': [3., 4.]}), CircularGaussianPRF(fwhm=4.5)),
}
for n, b in E.items(): run(n, b)
for k, v in results.items(): print(k, v)
print(len(E) * 6, 'calls;', len(results), 'with a changed input')
