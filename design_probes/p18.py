import numpy as np, warnings, itertools, math
warnings.simplefilter('ignore')
from astropy.table import Table, QTable
from astropy.modeling.models import Gaussian2D
import astropy.units as u
from photutils.datasets import make_model_image
from photutils.psf import GaussianPRF, CircularGaussianPSF, ImagePSF
bad = {}
def rec(k, *a): bad.setdefault(k, []).append(a)
shape = (9, 11)
rowtypes = [(5.2, 4.1), (0.0, 4.0), (10.0, 8.0), (4.5, 3.5), (-0.6, 4.0), (-2.4, 3.0), (11.4, 8.6), (-40., 3.)]
mshapes = [(5, 5), (4, 6)]
def window(c, n, N):
    # astropy overlap_slices convention: idx_min = ceil(c - n/2), idx_max = idx_min + n
    lo = int(math.ceil(c - n / 2.0)); hi = lo + n
    return max(lo, 0), min(hi, N)
def ref(model, rows, mshape, fluxname='flux'):
    img = np.zeros(shape)
    for (x, y, f, lb) in rows:
        y0, y1 = window(y, mshape[0], shape[0]); x0, x1 = window(x, mshape[1], shape[1])
        if y1 <= y0 or x1 <= x0: continue
        m = model.copy(); m.x_0 = x; m.y_0 = y; setattr(m, fluxname, f)
        yy, xx = np.mgrid[y0:y1, x0:x1]
        img[y0:y1, x0:x1] += m(xx, yy) + lb
    return img
models = {'prf': GaussianPRF(x_fwhm=2.1, y_fwhm=3.0, theta=0), 'psf': CircularGaussianPSF(fwhm=2.5)}
n = 0
for mn, ms in itertools.product(models, mshapes):
    model = models[mn]
    for k in (1, 2, 3):
        for combo in itertools.product(range(len(rowtypes)), repeat=k):
            rows = [(rowtypes[i][0], rowtypes[i][1], 10.0 + 3 * j, 0.5 * (i % 2)) for j, i in enumerate(combo)]
            t = Table({'x_0': [r[0] for r in rows], 'y_0': [r[1] for r in rows], 'flux': [r[2] for r in rows], 'local_bkg': [r[3] for r in rows]})
            n += 1
            try: got = make_model_image(shape, model, t, model_shape=ms)
            except Exception as e: rec('EXC', mn, ms, combo, repr(e)[:60]); continue
            exp = ref(model, rows, ms)
            if not np.allclose(got, exp, rtol=1e-13, atol=1e-13): rec('value', mn, ms, combo, np.abs(got - exp).max())
            if k > 1:
                got2 = make_model_image(shape, model, t[::-1], model_shape=ms)
                if not np.allclose(got, got2, rtol=1e-13, atol=1e-13): rec('order', mn, ms, combo)
print(n, {k: len(v) for k, v in bad.items()})
for k, v in bad.items(): print(k, v[0])
