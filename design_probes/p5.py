import numpy as np, time, warnings
warnings.simplefilter('ignore')
from astropy.modeling.models import Gaussian2D
from photutils.segmentation import detect_sources, deblend_sources
if __name__ == '__main__':
    yy, xx = np.mgrid[0:60, 0:90]
    img = np.zeros((60, 90))
    for (a, x0, y0, s) in [(50, 20, 20, 3), (40, 29, 20, 3), (30, 60, 15, 2), (25, 66, 17, 2), (30, 40, 45, 2.5), (35, 47, 45, 2.5)]:
        img += Gaussian2D(a, x0, y0, s, s)(xx, yy)
    segm = detect_sources(img, 1.0, 5)
    print(segm.labels)
    t0 = time.time(); a = deblend_sources(img, segm, 5, progress_bar=False, nproc=1); print('serial', time.time() - t0, a.labels)
    t0 = time.time(); b = deblend_sources(img, segm, 5, progress_bar=False, nproc=3); print('nproc3', time.time() - t0, np.array_equal(a.data, b.data))
    # stub executor test
    import photutils.segmentation.deblend as D
    from concurrent.futures import Future
    order = [2, 0, 1]
    class Stub:
        def __init__(self, *a, **k): self.futs = []
        def __enter__(self): return self
        def __exit__(self, *a): return False
        def submit(self, fn, *args, **kw):
            f = Future(); f.set_result(fn(*args, **kw)); self.futs.append(f); return f
    def as_comp(fd):
        futs = list(fd)
        for i in order: yield futs[i]
    D.ProcessPoolExecutor = Stub; D.as_completed = as_comp
    c = deblend_sources(img, segm, 5, progress_bar=False, nproc=3)
    print('stub perm', np.array_equal(a.data, c.data), c.deblended_labels_inverse_map)
