import numpy as np, warnings, itertools, time
warnings.simplefilter('ignore')
from astropy.modeling.models import Gaussian2D
from photutils.segmentation import detect_sources, deblend_sources, SegmentationImage
yy, xx = np.mgrid[0:60, 0:90]
def scene(srcs, off=0.0):
    img = np.zeros((60, 90)) + off
    for (a, x0, y0, s) in srcs: img += Gaussian2D(a, x0, y0, s, s)(xx, yy)
    return img
scenes = {
 'two-blends+single': [(50, 20, 20, 3), (40, 29, 20, 3), (30, 60, 15, 2), (25, 66, 17, 2), (30, 40, 45, 2.5)],
 'triple-row': [(50, 20, 30, 3), (45, 29, 30, 3), (40, 38, 30, 3), (30, 70, 12, 2)],
 'faint-companion': [(100, 30, 30, 3), (1.5, 40, 30, 2), (20, 70, 40, 2)],
}
bad = {}; n = 0; t0 = time.time()
def rec(k, *a): bad.setdefault(k, []).append(a)
for sn, off in itertools.product(scenes, (0.0, -0.5)):
    img = scene(scenes[sn], off)
    for conn in (4, 8):
        seg0 = detect_sources(img, 1.0, 5, connectivity=conn)
        for gaps in (False, True):
            seg = seg0.copy()
            if gaps:
                for l in seg.labels[::-1]: seg.reassign_label(l, int(l) * 3 + 1)
            for nl, ct, mode, rl, npix in itertools.product((1, 4, 32), (0.0, 0.001, 0.3, 1.0), ('exponential', 'linear', 'sinh'), (True, False), (1, 5)):
                n += 1
                snap = seg.data.copy()
                try: deb = deblend_sources(img, seg, npix, nlevels=nl, contrast=ct, mode=mode, connectivity=conn, relabel=rl, nproc=1, progress_bar=False)
                except Exception as e: rec('EXC', sn, off, conn, gaps, nl, ct, mode, rl, npix, repr(e)[:80]); continue
                key = (sn, off, conn, gaps, nl, ct, mode, rl, npix)
                if not np.array_equal(seg.data, snap): rec('input-mutated', *key)
                if not np.array_equal(deb.data != 0, seg.data != 0): rec('footprint', *key)
                if ct == 1.0 and not np.array_equal(deb.data, seg.data): rec('contrast1', *key)
                if rl and not np.array_equal(deb.labels, np.arange(1, deb.nlabels + 1)): rec('relabel', *key)
                inv = deb.deblended_labels_inverse_map
                for l in seg.labels:
                    pm = seg.data == l
                    ch = np.unique(deb.data[pm])
                    if len(ch) == 1:
                        if not rl and ch[0] != l: rec('untouched-label-changed', *key, l)
                        if l in inv: rec('map-lists-undeblended', *key, l)
                    else:
                        if sorted(inv.get(l, [])) != sorted(ch): rec('map-mismatch', *key, l, ch, inv.get(l))
                        for c in ch:
                            cm = deb.data == c
                            if not np.all(pm[cm]): rec('child-leaks', *key, l, c)
                            if cm.sum() < npix: rec('child-small', *key, l, c, cm.sum())
print(n, {k: len(v) for k, v in bad.items()}, round(time.time() - t0, 1))
for k, v in bad.items(): print(k, v[0])
