import numpy as np, itertools, warnings, time
warnings.simplefilter('ignore')
from photutils.detection import find_peaks
def ref(img, thr, fp, border, mask, npeaks):
    ny, nx = img.shape; fy, fx = fp.shape; cy, cx = fy // 2, fx // 2
    out = []
    for y in range(ny):
        for x in range(nx):
            if mask is not None and mask[y, x]: continue
            if border is not None:
                by, bx = border
                if y < by or y >= ny - by or x < bx or x >= nx - bx: continue
            t = thr[y, x] if np.ndim(thr) else thr
            if not img[y, x] > t: continue
            mx = -np.inf
            for j in range(fy):
                for i in range(fx):
                    if fp[j, i]:
                        p, q = y + j - cy, x + i - cx
                        if 0 <= p < ny and 0 <= q < nx: mx = max(mx, img[p, q])
            if img[y, x] == mx: out.append((x, y, img[y, x]))
    return out
bad = 0; n = 0; t0 = time.time()
fps = {'box': np.ones((3, 3), bool), 'cross': np.array([[0,1,0],[1,1,1],[0,1,0]], bool)}
for vals in itertools.product([0., 1., 2.], repeat=9):
    img = np.array(vals).reshape(3, 3)
    if np.all(img == img.flat[0]): continue
    for fpn, border, thr in itertools.product(fps, [None, (0, 0), (1, 0), (0, 1)], [-3, 0.5, 1.0]):
        n += 1
        r = ref(img, thr, fps[fpn], border, None, np.inf)
        kw = dict(box_size=3) if fpn == 'box' else dict(footprint=fps[fpn])
        t = find_peaks(img, thr, border_width=None if border is None else border, **kw)
        got = [] if t is None else sorted(zip(t['x_peak'].tolist(), t['y_peak'].tolist(), t['peak_value'].tolist()))
        if sorted(r) != got:
            bad += 1
            if bad < 5: print(img, fpn, border, thr, sorted(r), got)
print(n, bad, time.time() - t0)
