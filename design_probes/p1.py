import numpy as np, warnings, traceback
warnings.simplefilter('ignore')
from photutils.segmentation import SegmentationImage, SourceCatalog, detect_sources, deblend_sources
from photutils.background import Background2D
from photutils.profiles import RadialProfile, CurveOfGrowth
from photutils.centroids import centroid_sources, centroid_com, centroid_1dg, centroid_2dg, centroid_quadratic
from photutils.detection import StarFinder
from photutils.datasets import make_model_image
from photutils.psf import GaussianPRF, PSFPhotometry, SourceGrouper, CircularGaussianPRF
from astropy.table import QTable, Table
import astropy.units as u

def section(s): print('\n==', s)

section('C08 extra properties shared between parent/child')
rng = np.random.default_rng(0)
data = rng.random((12, 12))
segd = np.zeros((12, 12), int); segd[1:4, 1:4] = 1; segd[6:9, 2:5] = 2; segd[5:10, 7:11] = 5
cat = SourceCatalog(data, SegmentationImage(segd))
child = cat[0:2]
child.add_extra_property('foo', np.array([1., 2.]))
print('parent extra_properties after child add:', cat.extra_properties)
try:
    print(cat.to_table(columns=['label'] + cat.extra_properties))
except Exception as e:
    print('ERR', type(e).__name__, e)

section('C08 scalar cutout_centroid_quad fallback')
segd2 = np.zeros((12, 12), int); segd2[1:3, 1:3] = 1; segd2[6:9, 2:5] = 2
cat2 = SourceCatalog(data, SegmentationImage(segd2))
try:
    print('full', cat2.centroid_quad)
    c0 = SourceCatalog(data, SegmentationImage(segd2))[0]
    print('scalar', c0.centroid_quad)
except Exception as e:
    print('ERR', type(e).__name__, e)

section('C09 Background2D order: rms_mesh then mesh with filter_threshold')
img = rng.normal(10, 1, (20, 20)); img[3:6, 3:6] += 50
try:
    b = Background2D(img, 5, filter_size=3, filter_threshold=11.0)
    r = b.background_rms_mesh
    m = b.background_mesh
    print('ok')
except Exception as e:
    print('ERR', type(e).__name__, e)
try:
    b = Background2D(img, 5, filter_size=3, filter_threshold=11.0)
    m = b.background_mesh
    r = b.background_rms_mesh
    print('ok order 2')
    b2 = Background2D(img, 5, filter_size=3, filter_threshold=11.0)
    r2 = b2.background_rms_mesh
    print('rms equal?', np.array_equal(r, r2))
except Exception as e:
    print('ERR', type(e).__name__, e)

section('C10 profile mask mutation')
d = rng.random((15, 15)); d[2, 2] = np.nan
mask = np.zeros((15, 15), bool); mask[7, 8] = True
m0 = mask.copy()
rp = RadialProfile(d, (7, 7), np.arange(0, 6))
rp = RadialProfile(d, (7, 7), np.arange(0, 6), mask=mask)
print('mask changed:', not np.array_equal(mask, m0))

section('C09/C19 normalize then data_profile')
d = rng.random((15, 15))
rp1 = RadialProfile(d, (7, 7), np.arange(0, 6)); _ = rp1.data_profile; rp1.normalize()
rp2 = RadialProfile(d, (7, 7), np.arange(0, 6)); rp2.normalize(); 
print('data_profile equal after normalize (read before vs after):', np.allclose(rp1.data_profile, rp2.data_profile))
rp2.unnormalize()
rp3 = RadialProfile(d, (7, 7), np.arange(0, 6))
print('unnormalize restores data_profile:', np.allclose(rp2.data_profile, rp3.data_profile))

section('C17 centroid_sources with error, multiple positions')
from photutils.datasets import make_4gaussians_image
im = make_4gaussians_image()
err = np.sqrt(np.abs(im)) + 1
xs, ys = (25, 91, 151), (40, 61, 24)
xa, ya = centroid_sources(im, xs, ys, box_size=11, error=err, centroid_func=centroid_1dg)
singles = [centroid_sources(im, [x], [y], box_size=11, error=err, centroid_func=centroid_1dg) for x, y in zip(xs, ys)]
print('multi', xa, ya)
print('single', [s[0][0] for s in singles], [s[1][0] for s in singles])

section('C10 StarFinder mutates data / kernel')
from astropy.modeling.models import Gaussian2D
yy, xx = np.mgrid[0:7, 0:7]
kern = Gaussian2D(1, 3, 3, 1.2, 1.2)(xx, yy) * 3.0
k0 = kern.copy()
img = rng.normal(0, 1, (40, 40))
yy, xx = np.mgrid[0:40, 0:40]
img += Gaussian2D(100, 20, 20, 1.2, 1.2)(xx, yy)
i0 = img.copy()
sf = StarFinder(5.0, kern)
t = sf(img)
print('nsrc', None if t is None else len(t), 'data changed', not np.array_equal(i0, img), 'kernel changed', not np.array_equal(k0, kern))

section('C18 first row off image with units')
m = GaussianPRF(flux=1 * u.Jy, x_fwhm=2, y_fwhm=2)
tbl = QTable({'x_0': [-100., 5.], 'y_0': [-100., 5.], 'flux': [1., 2.] * u.Jy})
try:
    im = make_model_image((11, 11), m, tbl, model_shape=(5, 5))
    print(type(im), getattr(im, 'unit', None), im.sum())
except Exception as e:
    print('ERR', type(e).__name__, e)
tbl = QTable({'x_0': [5., -100.], 'y_0': [5., -100.], 'flux': [2., 1.] * u.Jy})
im = make_model_image((11, 11), m, tbl, model_shape=(5, 5))
print(type(im), getattr(im, 'unit', None), im.sum())

section('C09 PSFPhotometry grouper reset by group_id init_params')
psf = CircularGaussianPRF(fwhm=2.5)
ph = PSFPhotometry(psf, (5, 5), grouper=SourceGrouper(5), aperture_radius=4)
tbl = Table({'x': [10., 12.], 'y': [10., 11.], 'flux': [100., 50.]})
img = make_model_image((25, 25), psf, Table({'x_0': [10., 12.], 'y_0': [10., 11.], 'flux': [100., 50.]}), model_shape=(11, 11))
t1 = ph(img, init_params=tbl)
print('group ids first', list(t1['group_id']))
tbl2 = tbl.copy(); tbl2['group_id'] = [1, 2]
t2 = ph(img, init_params=tbl2)
t3 = ph(img, init_params=tbl)
print('after group_id call grouper =', ph.grouper, 'group ids third', list(t3['group_id']))
