import numpy as np, warnings, itertools
warnings.simplefilter('ignore')
from astropy.nddata import NDData
from photutils.psf import ImagePSF, GriddedPSFModel, GaussianPRF, CircularGaussianPRF, CircularGaussianSigmaPRF, GaussianPSF, CircularGaussianPSF, MoffatPSF, AiryDiskPSF
rng = np.random.default_rng(0)
d = rng.random((7, 9)) + 0.1
for ov, origin in itertools.product([1, 2, 3, (2, 3)], [None, (2.0, 4.0)]):
    m = ImagePSF(d, flux=2.5, x_0=10.3, y_0=-4.7, oversampling=ov, origin=origin)
    ovy, ovx = (ov, ov) if np.isscalar(ov) else ov
    ox, oy = m.origin
    jj, ii = np.meshgrid(np.arange(9), np.arange(7))
    x = 10.3 + (jj - ox) / ovx; y = -4.7 + (ii - oy) / ovy
    v = m(x, y)
    print(ov, origin, 'max err', np.abs(v - 2.5 * d).max(), 'outside', m(10.3 + 100, -4.7))
# gridded
psfs = []; yy, xx = np.mgrid[0:9, 0:9]
pos = list(itertools.product([0, 40, 100], [0, 60]))
for i, p in enumerate(pos):
    psfs.append(GaussianPSF(flux=1, x_0=4, y_0=4, x_fwhm=3 + i * 0.3, y_fwhm=2.5, theta=10 * i)(xx, yy))
nd = NDData(np.array(psfs), meta={'grid_xypos': pos, 'oversampling': 1})
g = GriddedPSFModel(nd)
for i, (px, py) in enumerate(pos):
    g.x_0, g.y_0 = px, py
    v = g(xx + px - 4, yy + py - 4)
    print('grid pos', (px, py), np.abs(v - psfs[i]).max())
g.x_0, g.y_0 = -50, 30   # outside left: nearest edge in x, blend in y
v = g(xx - 50 - 4, yy + 30 - 4)
exp = 0.5 * psfs[pos.index((0, 0))] + 0.5 * psfs[pos.index((0, 60))]
print('outside-left blend err', np.abs(v - exp).max())
try:
    nd1 = NDData(np.array(psfs[:3]), meta={'grid_xypos': [(0, 0), (40, 0), (100, 0)], 'oversampling': 1})
    g1 = GriddedPSFModel(nd1); g1.x_0, g1.y_0 = 20, 0
    print('single-row grid value finite?', np.isfinite(g1(xx + 20 - 4, yy - 4)).all())
except Exception as e:
    print('single-row ERR', type(e).__name__, e)
# PRF sums
big = np.mgrid[-60:61, -60:61]
for cls, kw in [(CircularGaussianPRF, dict(fwhm=0.2)), (CircularGaussianPRF, dict(fwhm=3.3)), (CircularGaussianSigmaPRF, dict(sigma=0.1)), (GaussianPRF, dict(x_fwhm=0.3, y_fwhm=4, theta=0)), (GaussianPRF, dict(x_fwhm=0.3, y_fwhm=4, theta=30)), (GaussianPRF, dict(x_fwhm=2.0, y_fwhm=4, theta=30)), (GaussianPRF, dict(x_fwhm=1.0, y_fwhm=1.5, theta=45))]:
    m = cls(flux=3.0, x_0=0.37, y_0=-0.21, **kw)
    print(cls.__name__, kw, 'sum-3 =', m(big[1], big[0]).sum() - 3.0)
