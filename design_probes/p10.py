import numpy as np, warnings, time, hashlib, itertools
warnings.simplefilter('ignore')
from photutils.segmentation import SegmentationImage
base = np.array([[1,1,0,0,4,4],[0,0,0,0,0,4],[0,0,3,3,0,0],[7,0,0,0,0,5],[7,7,0,5,5,5],[7,7,0,0,5,5]])
READS = ['labels','nlabels','max_label','slices','bbox','areas','missing_labels','is_consecutive','background_area','deblended_labels','segments']
def mutators(labels):
    ops = []
    L = list(labels)[:4]
    for l in L:
        for new in ([x for x in L if x != l][:1] + [max(L) + 3 if L else 9]):
            for rl in (False, True): ops.append(('reassign_label', (int(l), int(new)), {'relabel': rl}))
        for rl in (False, True):
            ops.append(('remove_label', (int(l),), {'relabel': rl}))
            ops.append(('keep_label', (int(l),), {'relabel': rl}))
    for st in (1, 2, 5): ops.append(('relabel_consecutive', (), {'start_label': st}))
    for w in (0, 1):
        for po in (True, False):
            ops.append(('remove_border_labels', (w,), {'partial_overlap': po}))
    return ops
def build(h):
    s = SegmentationImage(base.copy())
    for op in h:
        if op[0] == 'read': 
            try: getattr(s, op[1])
            except Exception: pass
        else: getattr(s, op[0])(*op[1], **op[2])
    return s
def canon(s):
    keys = sorted(k for k in s.__dict__ if k in s._lazyproperties)
    return hashlib.sha1(s.data.tobytes() + repr(keys).encode()).hexdigest()
t0 = time.time()
seen = {canon(build(()))}; frontier = [()]; trans = 0
for depth in range(1, 4):
    nxt = []
    for h in frontier:
        s = build(h)
        ops = [('read', r) for r in READS] + mutators(s.labels)
        for op in ops:
            try: s2 = build(h + (op,))
            except Exception as e: continue
            trans += 1
            k = canon(s2)
            if k not in seen: seen.add(k); nxt.append(h + (op,))
    frontier = nxt
    print('depth', depth, 'states', len(seen), 'frontier', len(frontier), 'transitions', trans, 't', round(time.time() - t0, 1))
