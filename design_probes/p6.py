import numpy as np, warnings
warnings.simplefilter('ignore')
from photutils.isophote import Ellipse, EllipseGeometry, build_ellipse_model
def galaxy(shape, x0, y0, eps, pa, r0=8., kind='exp'):
    yy, xx = np.mgrid[0:shape[0], 0:shape[1]]
    dx, dy = xx - x0, yy - y0
    x = dx * np.cos(pa) + dy * np.sin(pa); y = -dx * np.sin(pa) + dy * np.cos(pa)
    r = np.sqrt(x**2 + (y / (1 - eps))**2)
    return 1000 * np.exp(-r / r0) if kind == 'exp' else 1000 * np.exp(-0.5 * (r / r0)**2)
for eps, pa in [(0.3, 0.4), (0.6, 2.0), (0.1, 1.0), (0.8, 0.1)]:
    x0, y0 = 50.3, 47.6
    img = galaxy((100, 100), x0, y0, eps, pa)
    im0 = img.copy()
    g = EllipseGeometry(50, 48, 10, max(0.1, eps - 0.1), pa + 0.1)
    el = Ellipse(img, g)
    iso = el.fit_image(maxsma=40)
    sel = [i for i in iso if 4 < i.sma < 35 and i.stop_code == 0]
    dx = max(abs(i.x0 - x0) for i in sel); dy = max(abs(i.y0 - y0) for i in sel)
    de = max(abs(i.eps - eps) for i in sel); dpa = max(abs(((i.pa - pa + np.pi / 2) % np.pi) - np.pi / 2) for i in sel)
    truth_int = [1000 * np.exp(-i.sma / 8.) for i in sel]
    dint = max(abs(i.intens - t) / t for i, t in zip(sel, truth_int))
    print(eps, pa, len(iso), len(sel), 'dx %.2e dy %.2e deps %.2e dpa %.2e dI %.2e' % (dx, dy, de, dpa, dint), 'sorted', all(np.diff(iso.sma) > 0), 'untouched', np.array_equal(img, im0))
    mod = build_ellipse_model(img.shape, iso)
    yy, xx = np.mgrid[0:100, 0:100]
    rr = np.hypot(xx - x0, yy - y0)
    m = (rr < 25) & (rr > 3)
    print('   model rel err max', np.max(np.abs(mod[m] - img[m]) / img[m]))
    iso2 = el.fit_image(maxsma=40)
    print('   reuse same?', len(iso2) == len(iso) and np.allclose(iso2.sma, iso.sma) and np.allclose(iso2.eps, iso.eps, atol=1e-12))
