import numpy as np, warnings, itertools
warnings.simplefilter('ignore')
from astropy.stats import SigmaClip
from photutils.background import Background2D, MedianBackground, MeanBackground, StdBackgroundRMS, MADStdBackgroundRMS, SExtractorBackground, BiweightLocationBackground, ModeEstimatorBackground, MMMBackground, BiweightScaleBackgroundRMS
rng = np.random.default_rng(1)
bad = {}; n = 0
def rec(k, *a): bad.setdefault(k, []).append(a)
for (ny, nx), (by, bx), ep, sc in itertools.product([(7, 9), (6, 6), (9, 5)], [(2, 2), (3, 3), (2, 3), (4, 5)], [0, 10, 50, 100], [None, SigmaClip(3.0, maxiters=10)]):
    if by > ny or bx > nx: continue
    img = rng.normal(10, 2, (ny, nx)); img[1, 1] = 100.
    mask = np.zeros((ny, nx), bool); mask[0, :2] = True; mask[ny - 1, nx - 1] = True; mask[2:4, 2:5] = True
    for be, re_ in [(MedianBackground, StdBackgroundRMS), (MeanBackground, MADStdBackgroundRMS), (SExtractorBackground, BiweightScaleBackgroundRMS), (BiweightLocationBackground, StdBackgroundRMS), (ModeEstimatorBackground, StdBackgroundRMS), (MMMBackground, StdBackgroundRMS)]:
        n += 1
        try: b = Background2D(img, (by, bx), mask=mask, exclude_percentile=ep, sigma_clip=sc, bkg_estimator=be(), bkgrms_estimator=re_(), filter_size=1)
        except ValueError as e: continue
        mesh = b.background_mesh; rms = b.background_rms_mesh
        my, mx = mesh.shape
        if (my, mx) != (-(-ny // by), -(-nx // bx)): rec('meshshape', (ny, nx), (by, bx)); continue
        for j, i in itertools.product(range(my), range(mx)):
            box = img[j * by:(j + 1) * by, i * bx:(i + 1) * bx]; bm = mask[j * by:(j + 1) * by, i * bx:(i + 1) * bx]
            good = box[~bm]
            ngood_thr = (1 - ep / 100.0) * by * bx
            vals = good
            if sc is not None and good.size: vals = np.ma.compressed(sc(good))
            excluded = vals.size <= ngood_thr if False else None
            # photutils counts ngood after sigma clipping
            if vals.size <= ngood_thr: continue   # excluded -> interpolated
            e1 = be(sigma_clip=None)(vals); e2 = re_(sigma_clip=None)(vals)
            if not np.isclose(mesh[j, i], e1, rtol=1e-10, atol=1e-10): rec('bkg', (ny, nx), (by, bx), ep, sc is not None, be.__name__, (j, i), mesh[j, i], e1)
            if not np.isclose(rms[j, i], e2, rtol=1e-10, atol=1e-10): rec('rms', (ny, nx), (by, bx), ep, sc is not None, re_.__name__, (j, i), rms[j, i], e2)
            if b.npixels_mesh[j, i] != vals.size: rec('npix', (ny, nx), (by, bx), ep, (j, i), b.npixels_mesh[j, i], vals.size)
print(n, {k: len(v) for k, v in bad.items()})
for k, v in bad.items(): print(k, v[:2])
