import numpy as np, math, itertools, warnings
warnings.simplefilter('ignore')
from geomref import ellipse_pixel_frac
from photutils.aperture import CircularAperture, EllipticalAperture
worst = []
fr = [0, 0.5, 0.25, 1/3, 0.137, 0.5 - 1e-9]
radii = [0.03, 0.3, 0.5, math.sqrt(0.5), 1.0, math.sqrt(2.5), 1.5, 2.0, 2.5, math.sqrt(5), 3.3, 5.0, 7.07]
n = 0
for fx, fy, r in itertools.product(fr, fr, radii):
    ap = CircularAperture((3 + fx, 2 + fy), r)
    m = ap.to_mask('exact'); bb = m.bbox
    ref = np.zeros(m.data.shape)
    for iy in range(bb.shape[0]):
        for ix in range(bb.shape[1]):
            x0 = bb.ixmin + ix - 0.5 - (3 + fx); y0 = bb.iymin + iy - 0.5 - (2 + fy)
            ref[iy, ix] = ellipse_pixel_frac(x0, y0, x0 + 1, y0 + 1, r, r, 0.0)
    d = np.abs(ref - m.data).max(); n += 1
    worst.append((d, 'circ', fx, fy, r, abs(m.data.sum() - math.pi*r*r)))
worst.sort(reverse=True)
print(n, worst[:5])
worst = []
thetas = [0, math.pi/8, math.pi/4, math.pi/2, 1.0, math.pi/4 + 1e-10, 3*math.pi/4, 2.5]
for fx, fy, a, q, th in itertools.product([0, 0.5, 0.137], [0, 0.5, 0.3], [0.3, 1.0, 2.5, 5.0, 12.0], [1.0, 0.5, 0.1, 0.02], thetas):
    b = a*q
    ap = EllipticalAperture((3 + fx, 2 + fy), a, b, theta=th)
    m = ap.to_mask('exact'); bb = m.bbox
    ref = np.zeros(m.data.shape)
    for iy in range(bb.shape[0]):
        for ix in range(bb.shape[1]):
            x0 = bb.ixmin + ix - 0.5 - (3 + fx); y0 = bb.iymin + iy - 0.5 - (2 + fy)
            ref[iy, ix] = ellipse_pixel_frac(x0, y0, x0 + 1, y0 + 1, a, b, th)
    d = np.abs(ref - m.data).max()
    worst.append((d, 'ell', fx, fy, a, b, th, abs(m.data.sum() - math.pi*a*b), abs(ref.sum() - math.pi*a*b)))
worst.sort(reverse=True)
print(len(worst)); 
for w in worst[:12]: print(w)
