import numpy as np, warnings, itertools
warnings.simplefilter('ignore')
from photutils.centroids import centroid_com, centroid_quadratic, centroid_1dg, centroid_2dg, centroid_sources
rng = np.random.default_rng(3)
bad = {}
def rec(k, *a): bad.setdefault(k, []).append(a)
# symmetric sources
for ny, nx in itertools.product(range(5, 10), range(5, 10)):
    for cx2, cy2 in itertools.product(range(nx - 4, nx + 3), range(ny - 4, ny + 3)):   # centre*2 on half-pixel lattice near middle
        cx, cy = cx2 / 2, cy2 / 2
        if not (1.5 <= cx <= nx - 2.5 and 1.5 <= cy <= ny - 2.5): continue
        a = rng.random((ny, nx))
        yy, xx = np.mgrid[0:ny, 0:nx]
        # symmetrise: f(p) = g(p) + g(2c - p) where defined else 0
        s = np.zeros((ny, nx))
        for y in range(ny):
            for x in range(nx):
                y2, x2 = int(round(2 * cy - y)), int(round(2 * cx - x))
                if 0 <= y2 < ny and 0 <= x2 < nx: s[y, x] = a[y, x] + a[y2, x2]
        # make it peaked & positive
        s = s * np.exp(-((xx - cx)**2 + (yy - cy)**2) / 6.0)
        c = centroid_com(s)
        if not np.allclose(c, (cx, cy), atol=1e-10): rec('com_sym', ny, nx, cx, cy, c)
        for fl in (np.fliplr, np.flipud):
            c2 = centroid_com(fl(s)); exp = (nx - 1 - c[0], c[1]) if fl is np.fliplr else (c[0], ny - 1 - c[1])
            if not np.allclose(c2, exp, atol=1e-10): rec('com_flip', ny, nx)
        if not np.allclose(centroid_com(s.T), c[::-1], atol=1e-12): rec('com_T', ny, nx)
# exact quadratics
for ny, nx in [(5, 5), (6, 7), (9, 8)]:
    yy, xx = np.mgrid[0:ny, 0:nx]
    for px, py in itertools.product(range(1, nx - 1), range(1, ny - 1)):
        for fx, fy in itertools.product([-0.4, -0.2, 0, 0.3, 0.45], repeat=2):
            for (cxx, cyy, cxy) in [(-1, -1, 0), (-2, -0.7, 0.5), (-0.5, -1.5, -0.6)]:
                vx, vy = px + fx, py + fy
                q = 10 + cxx * (xx - vx)**2 + cyy * (yy - vy)**2 + cxy * (xx - vx) * (yy - vy)
                iy, ix = np.unravel_index(np.argmax(q), q.shape)
                if ix in (0, nx - 1) or iy in (0, ny - 1): continue
                c = centroid_quadratic(q, fit_boxsize=3)
                if not np.allclose(c, (vx, vy), atol=1e-9): rec('quad', ny, nx, vx, vy, c, (cxx, cyy, cxy))
# centroid_sources vs single, orders
from photutils.datasets import make_4gaussians_image
im = make_4gaussians_image(); im -= np.median(im[0:30, 0:125])
err = np.sqrt(np.abs(im)) + 1; msk = np.zeros(im.shape, bool); msk[40, 25] = True
P = [(25, 40), (91, 61), (151, 24)]
for func, kw in itertools.product((centroid_com, centroid_quadratic, centroid_1dg, centroid_2dg), ({}, {'error': err}, {'mask': msk})):
    if 'error' in kw and func in (centroid_com, centroid_quadratic): continue
    singles = {p: centroid_sources(im, [p[0]], [p[1]], box_size=11, centroid_func=func, **kw) for p in P}
    for perm in itertools.permutations(P):
        xs, ys = centroid_sources(im, [p[0] for p in perm], [p[1] for p in perm], box_size=11, centroid_func=func, **kw)
        for i, p in enumerate(perm):
            if not (np.array_equal(xs[i], singles[p][0][0], equal_nan=True) and np.array_equal(ys[i], singles[p][1][0], equal_nan=True)):
                rec('sources', func.__name__, tuple(kw), perm, i)
print({k: len(v) for k, v in bad.items()})
for k, v in bad.items(): print(k, v[0])
