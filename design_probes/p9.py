import numpy as np, warnings
warnings.simplefilter('ignore')
from astropy.modeling.models import Gaussian2D
from astropy.convolution import convolve
from photutils.segmentation import detect_sources, deblend_sources, SourceCatalog, make_2dgaussian_kernel
from photutils.detection import DAOStarFinder, IRAFStarFinder, StarFinder, find_peaks
from photutils.aperture import CircularAperture, ApertureStats, aperture_photometry
rng = np.random.default_rng(5)
ny, nx = 70, 90
yy, xx = np.mgrid[0:ny, 0:nx]
img = rng.normal(0, 0.5, (ny, nx))
for (a, x0, y0, sx, sy, th) in [(80, 30.3, 28.8, 2.5, 1.6, 0.5), (60, 37.1, 30.2, 2.0, 2.0, 0), (50, 62.4, 40.1, 3.0, 1.5, 2.0), (70, 45.7, 50.3, 1.8, 1.8, 0)]:
    img += Gaussian2D(a, x0, y0, sx, sy, th)(xx, yy)
bkg = 0.01 * xx + 0.03 * yy
err = np.sqrt(np.abs(img)) + 0.5
def embed(a, dx, dy, px, py, fill=0):
    out = np.full((a.shape[0] + dy + py, a.shape[1] + dx + px), fill, dtype=a.dtype)
    out[dy:dy + a.shape[0], dx:dx + a.shape[1]] = a
    return out
def run(img, bkg, err):
    k = make_2dgaussian_kernel(3.0, size=5)
    conv = convolve(img, k)
    seg = detect_sources(conv, 3.0, 8)
    seg = deblend_sources(conv, seg, 8, progress_bar=False, nproc=1)
    cat = SourceCatalog(img, seg, convolved_data=conv, error=err, background=bkg)
    return seg, cat
seg0, cat0 = run(img, bkg, err)
dx, dy = 3, 7
seg1, cat1 = run(embed(img, dx, dy, 4, 2), embed(bkg, dx, dy, 4, 2), embed(err, dx, dy, 4, 2, fill=1))
print('nlabels', seg0.nlabels, seg1.nlabels, 'seg equal', np.array_equal(embed(seg0.data, dx, dy, 4, 2), seg1.data))
cols = [c for c in cat0.properties if c not in ('sky_centroid', 'sky_centroid_icrs', 'sky_centroid_win', 'sky_centroid_quad', 'sky_bbox_ll', 'sky_bbox_ul', 'sky_bbox_lr', 'sky_bbox_ur')]
bad = []
for c in cols:
    try:
        a = getattr(cat0, c); b = getattr(cat1, c)
    except Exception as e:
        bad.append((c, 'EXC', str(e)[:50])); continue
    try:
        a = np.asarray(getattr(a, 'value', a), dtype=float); b = np.asarray(getattr(b, 'value', b), dtype=float)
    except Exception:
        continue
    if a.shape != b.shape: continue
    d = b - a
    if np.allclose(d, 0, atol=1e-8, equal_nan=True): kind = 'inv'
    elif np.allclose(d, dx, atol=1e-8, equal_nan=True): kind = 'dx'
    elif np.allclose(d, dy, atol=1e-8, equal_nan=True): kind = 'dy'
    elif d.ndim == 2 and d.shape[1] == 2 and np.allclose(d, [dx, dy], atol=1e-8, equal_nan=True): kind = 'dxdy'
    elif d.ndim == 2 and d.shape[1] == 2 and np.allclose(d, [dy, dx], atol=1e-8, equal_nan=True): kind = 'dydx'
    else: kind = 'OTHER'; bad.append((c, np.nanmax(np.abs(d))))
    print(f'{c:28s} {kind}')
print('BAD', bad)
for F in (DAOStarFinder(5.0, 4.0), IRAFStarFinder(5.0, 4.0), StarFinder(5.0, np.asarray(make_2dgaussian_kernel(4.0, size=7)).copy())):
    t0 = F(img.copy()); t1 = F(embed(img, dx, dy, 4, 2))
    ok = len(t0) == len(t1)
    if ok:
        ok = np.allclose(t1['xcentroid'] - t0['xcentroid'], dx) and np.allclose(t1['ycentroid'] - t0['ycentroid'], dy) and np.allclose(t1['flux'], t0['flux'])
    print(type(F).__name__, len(t0), len(t1), ok)
