import numpy as np, math

def _seg_circle_area(x1, y1, x2, y2):
    """signed area of (triangle O,P1,P2) ∩ unit disk, P1->P2 directed."""
    # param P(t)=P1+t d ; solve |P|^2=1
    dx, dy = x2 - x1, y2 - y1
    a = dx*dx + dy*dy
    if a == 0.0:
        return 0.0
    b = 2*(x1*dx + y1*dy)
    c = x1*x1 + y1*y1 - 1.0
    disc = b*b - 4*a*c
    def tri(ax, ay, bx, by):
        return 0.5*(ax*by - ay*bx)
    def sector(ax, ay, bx, by):
        # signed angle from A to B times 1/2 (unit circle)
        ang = math.atan2(ax*by - ay*bx, ax*bx + ay*by)
        return 0.5*ang
    if disc <= 0:
        return sector(x1, y1, x2, y2)
    sq = math.sqrt(disc)
    t1 = (-b - sq)/(2*a); t2 = (-b + sq)/(2*a)
    if t2 <= 0 or t1 >= 1:
        return sector(x1, y1, x2, y2)
    ta = max(t1, 0.0); tb = min(t2, 1.0)
    ax, ay = x1 + ta*dx, y1 + ta*dy
    bx, by = x1 + tb*dx, y1 + tb*dy
    area = tri(ax, ay, bx, by)
    if ta > 0: area += sector(x1, y1, ax, ay)
    if tb < 1: area += sector(bx, by, x2, y2)
    return area

def poly_unit_circle_area(pts):
    s = 0.0
    n = len(pts)
    for i in range(n):
        x1, y1 = pts[i]; x2, y2 = pts[(i+1) % n]
        s += _seg_circle_area(x1, y1, x2, y2)
    return abs(s)

def ellipse_pixel_frac(xmin, ymin, xmax, ymax, a, b, theta):
    c, s = math.cos(theta), math.sin(theta)
    pts = []
    for (x, y) in ((xmin, ymin), (xmax, ymin), (xmax, ymax), (xmin, ymax)):
        xr = (x*c + y*s)/a
        yr = (-x*s + y*c)/b
        pts.append((xr, yr))
    return poly_unit_circle_area(pts)*a*b/((xmax-xmin)*(ymax-ymin))
