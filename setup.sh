#!/bin/bash
# Offline setup after a fresh restore: rebuild stale geometry extensions from the
# generated .c files (gcc) and run the reference-model self-tests listed in
# selftest/required.txt (self-tests of modules still under construction are run
# too, but only reported).
cd "$(dirname "${BASH_SOURCE[0]}")"
chmod +x check tools/*.sh tools/*.py 2>/dev/null || true
export VERIF_REPO="${VERIF_REPO:-/repo}"
export PYTHONHASHSEED=0 OMP_NUM_THREADS=1 OPENBLAS_NUM_THREADS=1 PYTHONDONTWRITEBYTECODE=1
PYTHONPATH="$VERIF_REPO:$PWD" /venv/bin/python -m mcphot.buildext || exit 1
rc=0
for t in selftest/test_*.py; do
  [ -e "$t" ] || continue
  if PYTHONPATH="$VERIF_REPO:$PWD" /venv/bin/python -W ignore "$t" >/tmp/selftest.out 2>&1; then
    echo "selftest ok: $t"
  else
    if grep -qx "$(basename "$t")" selftest/required.txt 2>/dev/null; then
      echo "SELFTEST FAILED (required): $t"; tail -5 /tmp/selftest.out; rc=1
    else
      echo "selftest failed (not required, module under construction): $t"
    fi
  fi
done
[ $rc -eq 0 ] && echo setup ok
exit $rc
