#!/bin/bash
# Offline setup after a fresh restore: rebuild stale geometry extensions from the
# generated .c files (gcc), byte-compile nothing (PYTHONDONTWRITEBYTECODE), and run
# the reference-model self-tests.
set -e
cd "$(dirname "${BASH_SOURCE[0]}")"
chmod +x check tools/*.sh 2>/dev/null || true
export VERIF_REPO="${VERIF_REPO:-/repo}"
PYTHONPATH="$VERIF_REPO:$PWD" /venv/bin/python -m mcphot.buildext
if [ -d selftest ]; then
  for t in selftest/test_*.py; do
    [ -e "$t" ] || continue
    PYTHONPATH="$VERIF_REPO:$PWD" /venv/bin/python -W ignore "$t"
  done
fi
echo setup ok
